//! Registry of (message type, decoding parameter) entries shared by C07 (canonical / round-trip /
//! exact length) and C08 (decoders are total).
//!
//! Every entry is a trait object that can
//!   * produce HONEST values by really running the protocol (shard, verify_init, ... ping-pong),
//!     already examined for `encoded_len`, `get_encoded` and `decode(encode(v)) == v`;
//!   * decode an arbitrary byte string with the entry's decoding parameter and examine the
//!     accepted value (re-encoding, advertised length, re-decoding, the type's own `PartialEq`);
//!   * decode-and-drop (the operation C08 monitors for panics / allocation / time);
//!   * describe the LAYOUT of one of its encodings (where field elements, tags, length prefixes,
//!     packed bits are), from which the drivers derive targeted non-canonical forms and the
//!     header-extreme workload.
//!
//! Deliberately NOT in the registry (see NOTES.md): zero-size item types in the vector helpers
//! (`decode_u8_items::<(), ()>` never terminates on a non-zero length, DESIGN.md §7 #10) and the
//! degenerate instance `bits = 0` (`Poplar1::new(0)`, `IdpfPublicShare` with `bits = 0`), whose
//! decoders underflow `bits - 1`: not "instances a server would hold".

use crate::common::*;
use prio::codec::{
    decode_fixlen_items, decode_u16_items, decode_u32_items, decode_u8_items, encode_fixlen_items,
    encode_u16_items, encode_u32_items, encode_u8_items, CodecError, Decode, Encode,
    ParameterizedDecode,
};
use prio::field::{Field128, Field255, Field64, FieldElement, FieldPrio2};
use prio::flp::gadgets::{Mul, ParallelSum};
use prio::flp::types::{Average, Count, Histogram, L1BoundSum, MultihotCountVec, Sum, SumVec};
use prio::flp::Type;
use prio::idpf::{Idpf, IdpfInput, IdpfPublicShare, IdpfValue};
use prio::topology::ping_pong::{
    PingPongContinuation, PingPongMessage, PingPongState, PingPongTopology,
};
use prio::vdaf::dummy;
use prio::vdaf::poplar1::{Poplar1, Poplar1AggregationParam, Poplar1IdpfValue};
use prio::vdaf::prio2::Prio2;
use prio::vdaf::prio3::Prio3;
use prio::vdaf::test_utils::TestVectorClient;
use prio::vdaf::xof::{Seed, Xof, XofFixedKeyAes128, XofHmacSha256Aes128, XofTurboShake128};
use prio::vdaf::{Aggregator, Client, VerifyTransition};
use std::io::Cursor;
use std::rc::Rc;

// ---------------------------------------------------------------------------------------------
// Layout description
// ---------------------------------------------------------------------------------------------

#[derive(Clone, Copy, Debug, PartialEq, Eq)]
pub enum FieldKind {
    Prio2,
    F64,
    F128,
    F255,
}

impl FieldKind {
    pub fn size(self) -> usize {
        match self {
            FieldKind::Prio2 => 4,
            FieldKind::F64 => 8,
            FieldKind::F128 => 16,
            FieldKind::F255 => 32,
        }
    }
    pub fn name(self) -> &'static str {
        match self {
            FieldKind::Prio2 => "FieldPrio2",
            FieldKind::F64 => "Field64",
            FieldKind::F128 => "Field128",
            FieldKind::F255 => "Field255",
        }
    }
    /// Little-endian bytes of the modulus (from the definitions of the fields: 2^32 - 2^20 + 1,
    /// 2^64 - 2^32 + 1, 2^66 * 4611686018427387897 + 1, 2^255 - 19).
    pub fn modulus_le(self) -> Vec<u8> {
        match self {
            FieldKind::Prio2 => 4293918721u32.to_le_bytes().to_vec(),
            FieldKind::F64 => 18446744069414584321u64.to_le_bytes().to_vec(),
            FieldKind::F128 => 340282366920938462946865773367900766209u128.to_le_bytes().to_vec(),
            FieldKind::F255 => {
                let mut v = vec![0xffu8; 32];
                v[0] = 0xed;
                v[31] = 0x7f;
                v
            }
        }
    }
}

/// Add a small integer to a little-endian byte string (no overflow expected by callers).
pub fn le_add(v: &[u8], mut add: u16) -> Vec<u8> {
    let mut out = v.to_vec();
    for b in out.iter_mut() {
        let s = *b as u16 + add;
        *b = s as u8;
        add = s >> 8;
        if add == 0 {
            break;
        }
    }
    out
}

pub fn le_sub1(v: &[u8]) -> Vec<u8> {
    let mut out = v.to_vec();
    for b in out.iter_mut() {
        if *b == 0 {
            *b = 0xff;
        } else {
            *b -= 1;
            break;
        }
    }
    out
}

pub trait FK: FieldElement {
    const KIND: FieldKind;
}
impl FK for FieldPrio2 {
    const KIND: FieldKind = FieldKind::Prio2;
}
impl FK for Field64 {
    const KIND: FieldKind = FieldKind::F64;
}
impl FK for Field128 {
    const KIND: FieldKind = FieldKind::F128;
}
impl FK for Field255 {
    const KIND: FieldKind = FieldKind::F255;
}

/// One segment of an encoding.
#[derive(Clone, Debug, PartialEq, Eq)]
pub enum Seg {
    /// `count` field elements, little-endian, each must be below the modulus.
    Field(FieldKind, usize),
    /// Bytes whose every value is acceptable (seeds, integers, opaque payloads).
    Opaque(usize),
    /// A one-byte discriminator; 0..=max_valid are the defined values.
    Tag { max_valid: u8 },
    /// A big-endian length / count prefix of the given width in bytes.
    Len(usize),
    /// The u16 `level` header of a Poplar1 aggregation parameter.
    Level,
    /// Packed control bits (Lsb0); bits at index >= used_bits must be zero.
    ControlBits { bytes: usize, used_bits: usize },
    /// `count` prefixes of `bytes_each` bytes (Msb0), only the first `used_bits` bits of each may
    /// be set; strictly increasing.
    Prefixes { count: usize, bytes_each: usize, used_bits: usize },
}

impl Seg {
    pub fn len(&self) -> usize {
        match self {
            Seg::Field(k, n) => k.size() * n,
            Seg::Opaque(n) => *n,
            Seg::Tag { .. } => 1,
            Seg::Len(w) => *w,
            Seg::Level => 2,
            Seg::ControlBits { bytes, .. } => *bytes,
            Seg::Prefixes { count, bytes_each, .. } => count * bytes_each,
        }
    }
    pub fn is_header(&self) -> bool {
        matches!(self, Seg::Tag { .. } | Seg::Len(_) | Seg::Level)
    }
}

pub fn layout_len(l: &[Seg]) -> usize {
    l.iter().map(|s| s.len()).sum()
}

// ---------------------------------------------------------------------------------------------
// Entry trait
// ---------------------------------------------------------------------------------------------

pub fn err_kind(e: &CodecError) -> &'static str {
    match e {
        CodecError::Io(_) => "Io",
        CodecError::BytesLeftOver(_) => "BytesLeftOver",
        CodecError::LengthPrefixTooBig(_) => "LengthPrefixTooBig",
        CodecError::LengthPrefixOverflow => "LengthPrefixOverflow",
        CodecError::Other(_) => "Other",
        CodecError::UnexpectedValue => "UnexpectedValue",
        _ => "unknown-variant",
    }
}

/// Result of re-decoding a re-encoding.
#[derive(Clone, Debug)]
pub struct Redecode {
    /// `v == decode(encode(v))` by the type's own PartialEq (None: the type has none).
    pub eq: Option<bool>,
    /// `encode(decode(encode(v))) == encode(v)`.
    pub same_bytes: bool,
}

/// What was observed about a value (honest, or obtained by decoding an arbitrary string).
pub struct Observed {
    /// `encode(v)` into a fresh vector.
    pub enc: Result<Vec<u8>, String>,
    /// `v.encoded_len()`.
    pub encoded_len: Option<usize>,
    /// `v.get_encoded()` produced the same bytes as `encode`.
    pub get_encoded_same: bool,
    /// decode(enc) (None when enc failed or the decoder panicked).
    pub redecode: Option<Result<Redecode, String>>,
    /// Panics caught in the individual stages.
    pub panics: Vec<StagePanic>,
}

pub enum Exam {
    Rejected(&'static str),
    Accepted(Observed),
}

/// A panic inside one stage of an examination.
pub struct StagePanic {
    pub stage: &'static str,
    pub info: PanicInfo,
}

pub struct HonestCase {
    pub desc: String,
    pub obs: Observed,
}

pub trait Entry {
    /// Unique name: "<message class>|<instance label>".
    fn name(&self) -> &str;
    /// Message class (no instance parameters): what violation signatures are keyed on.
    fn class(&self) -> &str;
    /// Honest encoded length for this decoding parameter (max over the honest variants seen).
    fn nominal_len(&self) -> usize;
    /// Fresh honest values obtained by running the protocol, already examined.
    fn honest(&self, rng: &mut Rng64) -> Vec<HonestCase>;
    /// Decode and examine (each stage under the panic monitor).
    fn examine(&self, bytes: &[u8]) -> Result<Exam, StagePanic>;
    /// Decode and drop; NOT under the panic monitor (C08 wraps it).
    fn decode_only(&self, bytes: &[u8]) -> Result<(), &'static str>;
    /// Full error text of a rejection (slow path, for witnesses).
    fn error_text(&self, bytes: &[u8]) -> String;
    /// Layout of an encoding accepted by this entry (None: not applicable).
    fn layout(&self, enc: &[u8]) -> Option<Vec<Seg>>;
    /// Argument class of an input, for signatures (e.g. "level=0xffff").
    fn arg_class(&self, input: &[u8]) -> String;
    /// Does the encoding start with / contain tags or length prefixes (exhaustive up to 3 bytes)?
    fn tagged(&self) -> bool;
}

type DecFn<T> = Box<dyn Fn(&[u8]) -> Result<T, CodecError>>;
type GenFn<T> = Box<dyn Fn(&mut Rng64) -> Vec<(String, T)>>;
type LayoutFn = Box<dyn Fn(&[u8]) -> Option<Vec<Seg>>>;

pub struct Codec<T> {
    name: String,
    class: String,
    nominal: usize,
    dec: DecFn<T>,
    eq: Option<fn(&T, &T) -> bool>,
    make: GenFn<T>,
    layout: LayoutFn,
    arg_class: fn(&[u8]) -> String,
    tagged: bool,
}

fn no_class(_: &[u8]) -> String {
    "-".to_string()
}

fn fixed_layout(l: Vec<Seg>) -> LayoutFn {
    Box::new(move |enc| if layout_len(&l) == enc.len() { Some(l.clone()) } else { None })
}

impl<T: Encode + 'static> Codec<T> {
    /// Examine a value; a panic in one stage is recorded and the remaining stages still run.
    fn observe(&self, v: &T) -> Observed {
        let mut panics = vec![];
        let encoded_len = match catch(|| v.encoded_len()) {
            Ok(l) => l,
            Err(info) => {
                panics.push(StagePanic { stage: "encoded_len", info });
                None
            }
        };
        let enc = match catch(|| {
            let mut b = Vec::new();
            v.encode(&mut b).map(|_| b).map_err(|e| e.to_string())
        }) {
            Ok(r) => r,
            Err(info) => {
                panics.push(StagePanic { stage: "encode", info });
                Err("encode panicked".to_string())
            }
        };
        let get_encoded_same = match catch(|| v.get_encoded().map_err(|e| e.to_string())) {
            Ok(ge) => match (&enc, &ge) {
                (Ok(a), Ok(b)) => a == b,
                (Err(_), Err(_)) => true,
                _ => false,
            },
            Err(info) => {
                panics.push(StagePanic { stage: "get_encoded", info });
                true
            }
        };
        let redecode = match &enc {
            Err(_) => None,
            Ok(b) => match catch(|| (self.dec)(b)) {
                Err(info) => {
                    panics.push(StagePanic { stage: "redecode", info });
                    None
                }
                Ok(Err(e)) => Some(Err(e.to_string())),
                Ok(Ok(v2)) => {
                    let eq = match self.eq {
                        Some(f) => match catch(|| f(v, &v2)) {
                            Ok(x) => Some(x),
                            Err(info) => {
                                panics.push(StagePanic { stage: "eq", info });
                                None
                            }
                        },
                        None => None,
                    };
                    let b2 = catch(|| {
                        let mut b2 = Vec::new();
                        v2.encode(&mut b2).map(|_| b2).ok()
                    })
                    .unwrap_or(None);
                    Some(Ok(Redecode { eq, same_bytes: b2.as_deref() == Some(b.as_slice()) }))
                }
            },
        };
        Observed { enc, encoded_len, get_encoded_same, redecode, panics }
    }
}

impl<T: Encode + 'static> Entry for Codec<T> {
    fn name(&self) -> &str {
        &self.name
    }
    fn class(&self) -> &str {
        &self.class
    }
    fn nominal_len(&self) -> usize {
        self.nominal
    }
    fn honest(&self, rng: &mut Rng64) -> Vec<HonestCase> {
        let vals = (self.make)(rng);
        vals.into_iter().map(|(desc, v)| HonestCase { desc, obs: self.observe(&v) }).collect()
    }
    fn examine(&self, bytes: &[u8]) -> Result<Exam, StagePanic> {
        match catch(|| (self.dec)(bytes)).map_err(|info| StagePanic { stage: "decode", info })? {
            Err(e) => Ok(Exam::Rejected(err_kind(&e))),
            Ok(v) => Ok(Exam::Accepted(self.observe(&v))),
        }
    }
    fn decode_only(&self, bytes: &[u8]) -> Result<(), &'static str> {
        match (self.dec)(bytes) {
            Ok(_) => Ok(()),
            Err(e) => Err(err_kind(&e)),
        }
    }
    fn error_text(&self, bytes: &[u8]) -> String {
        match catch(|| (self.dec)(bytes)) {
            Ok(Ok(_)) => "accepted".into(),
            Ok(Err(e)) => format!("{e} / {e:?}"),
            Err(p) => format!("panic: {} at {}", p.message, p.location),
        }
    }
    fn layout(&self, enc: &[u8]) -> Option<Vec<Seg>> {
        (self.layout)(enc)
    }
    fn arg_class(&self, input: &[u8]) -> String {
        (self.arg_class)(input)
    }
    fn tagged(&self) -> bool {
        self.tagged
    }
}

pub struct Registry {
    pub entries: Vec<Box<dyn Entry>>,
    /// Things that went wrong while building honest traffic (reported by the drivers as notes /
    /// inconclusive, never as property verdicts: C01/C03/C12 judge honest executions).
    pub problems: Vec<String>,
}

impl Registry {
    fn push<T: Encode + 'static>(&mut self, mut c: Codec<T>, seed: u64) {
        // Nominal length: the longest honest encoding over a few generator calls.
        let mut rng = Rng64::derive(seed, &["codec-registry-nominal", &c.name], 0);
        let mut nominal = 0usize;
        let mut seen = 0usize;
        for _ in 0..3 {
            for (_, v) in (c.make)(&mut rng) {
                seen += 1;
                let mut b = Vec::new();
                if let Ok(Ok(())) = catch(|| v.encode(&mut b)) {
                    nominal = nominal.max(b.len());
                }
            }
        }
        if seen == 0 {
            self.problems.push(format!("entry {} has no honest values", c.name));
        }
        c.nominal = nominal;
        if self.entries.iter().any(|e| e.name() == c.name) {
            self.problems.push(format!("duplicate entry name {}", c.name));
        }
        self.entries.push(Box::new(c));
    }
}

// ---------------------------------------------------------------------------------------------
// Vector helper wrappers (codec.rs functions have no type of their own)
// ---------------------------------------------------------------------------------------------

#[derive(Clone, Debug, PartialEq, Eq)]
pub struct ItemsU8<T>(pub Vec<T>);
#[derive(Clone, Debug, PartialEq, Eq)]
pub struct ItemsU16<T>(pub Vec<T>);
#[derive(Clone, Debug, PartialEq, Eq)]
pub struct ItemsU32<T>(pub Vec<T>);
#[derive(Clone, Debug, PartialEq, Eq)]
pub struct ItemsFix<T>(pub Vec<T>);

impl<T: Encode> Encode for ItemsU8<T> {
    fn encode(&self, bytes: &mut Vec<u8>) -> Result<(), CodecError> {
        encode_u8_items(bytes, &(), &self.0)
    }
}
impl<T: Encode> Encode for ItemsU16<T> {
    fn encode(&self, bytes: &mut Vec<u8>) -> Result<(), CodecError> {
        encode_u16_items(bytes, &(), &self.0)
    }
}
impl<T: Encode> Encode for ItemsU32<T> {
    fn encode(&self, bytes: &mut Vec<u8>) -> Result<(), CodecError> {
        encode_u32_items(bytes, &(), &self.0)
    }
}
impl<T: Encode> Encode for ItemsFix<T> {
    fn encode(&self, bytes: &mut Vec<u8>) -> Result<(), CodecError> {
        encode_fixlen_items(bytes, &self.0)
    }
}

/// How to generate one item of a vector-helper entry.
trait Item: Encode + Decode + PartialEq + 'static {
    const NAME: &'static str;
    const SIZE: usize;
    fn make(rng: &mut Rng64) -> Self;
    fn seg(n: usize) -> Seg;
}
macro_rules! int_item {
    ($t:ty, $n:expr) => {
        impl Item for $t {
            const NAME: &'static str = stringify!($t);
            const SIZE: usize = $n;
            fn make(rng: &mut Rng64) -> Self {
                match rng.below(4) {
                    0 => 0,
                    1 => <$t>::MAX,
                    _ => rng.u64() as $t,
                }
            }
            fn seg(n: usize) -> Seg {
                Seg::Opaque(n * $n)
            }
        }
    };
}
int_item!(u8, 1);
int_item!(u16, 2);
int_item!(u32, 4);
int_item!(u64, 8);

fn gen_field<F: FK>(rng: &mut Rng64) -> F {
    let k = F::KIND;
    let p = k.modulus_le();
    let bytes = match rng.below(6) {
        0 => vec![0u8; k.size()],
        1 => le_sub1(&p),
        2 => {
            let mut one = vec![0u8; k.size()];
            one[0] = 1;
            one
        }
        _ => loop {
            let mut b = rng.bytes(k.size());
            if k == FieldKind::F255 {
                b[31] &= 0x7f;
            }
            if F::get_decoded(&b).is_ok() {
                break b;
            }
        },
    };
    F::get_decoded(&bytes).expect("harness: generated field element must decode")
}

macro_rules! field_item {
    ($t:ty) => {
        impl Item for $t {
            const NAME: &'static str = stringify!($t);
            const SIZE: usize = <$t as FieldElement>::ENCODED_SIZE;
            fn make(rng: &mut Rng64) -> Self {
                gen_field::<$t>(rng)
            }
            fn seg(n: usize) -> Seg {
                Seg::Field(<$t as FK>::KIND, n)
            }
        }
    };
}
field_item!(FieldPrio2);
field_item!(Field64);
field_item!(Field128);
field_item!(Field255);

impl Item for Seed<16> {
    const NAME: &'static str = "Seed<16>";
    const SIZE: usize = 16;
    fn make(rng: &mut Rng64) -> Self {
        Seed::<16>::get_decoded(&rng.array_edge::<16>()).unwrap()
    }
    fn seg(n: usize) -> Seg {
        Seg::Opaque(16 * n)
    }
}
impl Item for Seed<32> {
    const NAME: &'static str = "Seed<32>";
    const SIZE: usize = 32;
    fn make(rng: &mut Rng64) -> Self {
        Seed::<32>::get_decoded(&rng.array_edge::<32>()).unwrap()
    }
    fn seg(n: usize) -> Seg {
        Seg::Opaque(32 * n)
    }
}

fn gen_items<T: Item>(rng: &mut Rng64, max_bytes: usize) -> Vec<T> {
    let max_n = max_bytes / T::SIZE;
    let n = match rng.below(6) {
        0 => 0,
        1 => 1,
        2 => max_n,
        3 => max_n.saturating_sub(1),
        _ => rng.usize_below(max_n.min(40) + 1),
    };
    (0..n).map(|_| T::make(rng)).collect()
}

fn add_primitive<T: Item>(reg: &mut Registry, seed: u64) {
    let c = Codec::<T> {
        name: format!("{}|-", T::NAME),
        class: T::NAME.to_string(),
        nominal: 0,
        dec: Box::new(|b| T::get_decoded(b)),
        eq: Some(|a, b| a == b),
        make: Box::new(|rng| (0..4).map(|_| (String::new(), T::make(rng))).collect()),
        layout: fixed_layout(vec![T::seg(1)]),
        arg_class: no_class,
        tagged: false,
    };
    reg.push(c, seed);
}

fn prefixed_layout<T: Item>(w: usize) -> LayoutFn {
    Box::new(move |enc| {
        if enc.len() < w || (enc.len() - w) % T::SIZE != 0 {
            return None;
        }
        Some(vec![Seg::Len(w), T::seg((enc.len() - w) / T::SIZE)])
    })
}

fn add_items_u8<T: Item>(reg: &mut Registry, seed: u64) {
    let c = Codec::<ItemsU8<T>> {
        name: format!("u8_items<{}>|-", T::NAME),
        class: format!("u8_items<{}>", T::NAME),
        nominal: 0,
        dec: Box::new(|b| {
            let mut c = Cursor::new(b);
            let v = decode_u8_items::<(), T>(&(), &mut c)?;
            if c.position() as usize != b.len() {
                return Err(CodecError::BytesLeftOver(b.len() - c.position() as usize));
            }
            Ok(ItemsU8(v))
        }),
        eq: Some(|a, b| a == b),
        make: Box::new(|rng| (0..3).map(|_| (String::new(), ItemsU8(gen_items::<T>(rng, 255)))).collect()),
        layout: prefixed_layout::<T>(1),
        arg_class: no_class,
        tagged: true,
    };
    reg.push(c, seed);
}

fn add_items_u16<T: Item>(reg: &mut Registry, seed: u64) {
    let c = Codec::<ItemsU16<T>> {
        name: format!("u16_items<{}>|-", T::NAME),
        class: format!("u16_items<{}>", T::NAME),
        nominal: 0,
        dec: Box::new(|b| {
            let mut c = Cursor::new(b);
            let v = decode_u16_items::<(), T>(&(), &mut c)?;
            if c.position() as usize != b.len() {
                return Err(CodecError::BytesLeftOver(b.len() - c.position() as usize));
            }
            Ok(ItemsU16(v))
        }),
        eq: Some(|a, b| a == b),
        make: Box::new(|rng| (0..3).map(|_| (String::new(), ItemsU16(gen_items::<T>(rng, 1200)))).collect()),
        layout: prefixed_layout::<T>(2),
        arg_class: no_class,
        tagged: true,
    };
    reg.push(c, seed);
}

fn add_items_u32<T: Item>(reg: &mut Registry, seed: u64) {
    let c = Codec::<ItemsU32<T>> {
        name: format!("u32_items<{}>|-", T::NAME),
        class: format!("u32_items<{}>", T::NAME),
        nominal: 0,
        dec: Box::new(|b| {
            let mut c = Cursor::new(b);
            let v = decode_u32_items::<(), T>(&(), &mut c)?;
            if c.position() as usize != b.len() {
                return Err(CodecError::BytesLeftOver(b.len() - c.position() as usize));
            }
            Ok(ItemsU32(v))
        }),
        eq: Some(|a, b| a == b),
        make: Box::new(|rng| (0..3).map(|_| (String::new(), ItemsU32(gen_items::<T>(rng, 1200)))).collect()),
        layout: prefixed_layout::<T>(4),
        arg_class: no_class,
        tagged: true,
    };
    reg.push(c, seed);
}

/// `decode_fixlen_items(length, ..)` with the byte length as the decoding parameter.
fn add_items_fix<T: Item>(reg: &mut Registry, seed: u64, n: usize) {
    let bytes = n * T::SIZE;
    let c = Codec::<ItemsFix<T>> {
        name: format!("fixlen_items<{}>|bytes={}", T::NAME, bytes),
        class: format!("fixlen_items<{}>", T::NAME),
        nominal: 0,
        dec: Box::new(move |b| {
            let mut c = Cursor::new(b);
            let v = decode_fixlen_items::<(), T>(bytes, &(), &mut c)?;
            if c.position() as usize != b.len() {
                return Err(CodecError::BytesLeftOver(b.len() - c.position() as usize));
            }
            Ok(ItemsFix(v))
        }),
        eq: Some(|a, b| a == b),
        make: Box::new(move |rng| (0..3).map(|_| (String::new(), ItemsFix((0..n).map(|_| T::make(rng)).collect()))).collect()),
        layout: fixed_layout(vec![T::seg(n)]),
        arg_class: no_class,
        tagged: false,
    };
    reg.push(c, seed);
}

// ---------------------------------------------------------------------------------------------
// Generic VDAF traffic (broadcast and ping-pong)
// ---------------------------------------------------------------------------------------------

pub struct Sharded<V: Aggregator<S, 16>, const S: usize> {
    pub key: [u8; S],
    pub ctx: Vec<u8>,
    pub nonce: [u8; 16],
    pub agg_param: V::AggregationParam,
    pub public_share: V::PublicShare,
    pub input_shares: Vec<V::InputShare>,
}

pub struct Run<V: Aggregator<S, 16>, const S: usize> {
    pub sh: Sharded<V, S>,
    /// [round][aggregator]
    pub states: Vec<Vec<V::VerifyState>>,
    pub ver_shares: Vec<Vec<V::VerifierShare>>,
    /// [round]
    pub ver_msgs: Vec<V::VerifierMessage>,
    pub outputs: Vec<V::OutputShare>,
    pub agg_shares: Vec<V::AggregateShare>,
    pub pp_msgs: Vec<PingPongMessage>,
    /// (aggregator id, continuation), Transition variants only (the finished variant is
    /// documented as non-encodable).
    pub pp_conts: Vec<(usize, PingPongContinuation<S, 16, V>)>,
}

fn run_broadcast<V: Aggregator<S, 16>, const S: usize>(vdaf: &V, sh: Sharded<V, S>) -> Result<Run<V, S>, String> {
    let n = sh.input_shares.len();
    let mut states = vec![];
    let mut ver_shares = vec![];
    let mut ver_msgs = vec![];
    let mut cur_states = vec![];
    let mut cur_shares = vec![];
    for (i, s) in sh.input_shares.iter().enumerate() {
        let (st, vs) = vdaf
            .verify_init(&sh.key, &sh.ctx, i, &sh.agg_param, &sh.nonce, &sh.public_share, s)
            .map_err(|e| format!("verify_init: {e}"))?;
        cur_states.push(st);
        cur_shares.push(vs);
    }
    let mut outputs = vec![];
    for _round in 0..8 {
        states.push(cur_states.clone());
        ver_shares.push(cur_shares.clone());
        let msg = vdaf
            .verifier_shares_to_message(&sh.ctx, &sh.agg_param, cur_shares.clone())
            .map_err(|e| format!("verifier_shares_to_message: {e}"))?;
        ver_msgs.push(msg.clone());
        let mut next_states = vec![];
        let mut next_shares = vec![];
        for st in cur_states.iter() {
            match vdaf.verify_next(&sh.ctx, st.clone(), msg.clone()).map_err(|e| format!("verify_next: {e}"))? {
                VerifyTransition::Continue(ns, vs) => {
                    next_states.push(ns);
                    next_shares.push(vs);
                }
                VerifyTransition::Finish(o) => outputs.push(o),
            }
        }
        if outputs.len() == n {
            break;
        }
        if next_states.len() != n {
            return Err("aggregators did not finish together".into());
        }
        cur_states = next_states;
        cur_shares = next_shares;
    }
    if outputs.len() != n {
        return Err("no output after 8 rounds".into());
    }
    let mut agg_shares = vec![];
    for o in &outputs {
        // aggregate of 1 and of 2 copies (a second value shape for the same decoder)
        agg_shares.push(vdaf.aggregate(&sh.agg_param, [o.clone()]).map_err(|e| format!("aggregate: {e}"))?);
    }
    agg_shares.push(
        vdaf.aggregate(&sh.agg_param, [outputs[0].clone(), outputs[0].clone()]).map_err(|e| format!("aggregate: {e}"))?,
    );
    agg_shares.push(vdaf.aggregate_init(&sh.agg_param));
    Ok(Run { sh, states, ver_shares, ver_msgs, outputs, agg_shares, pp_msgs: vec![], pp_conts: vec![] })
}

fn is_transition<V: Aggregator<S, 16>, const S: usize>(c: &PingPongContinuation<S, 16, V>) -> bool {
    format!("{c:?}").contains("Transition")
}

fn run_pingpong<V: Aggregator<S, 16>, const S: usize>(vdaf: &V, run: &mut Run<V, S>) -> Result<(), String> {
    let sh = &run.sh;
    let lead = vdaf
        .leader_initialized(&sh.key, &sh.ctx, &sh.agg_param, &sh.nonce, &sh.public_share, &sh.input_shares[0])
        .map_err(|e| format!("leader_initialized: {e}"))?;
    let mut msgs = vec![lead.message.clone()];
    let mut conts = vec![];
    let mut leader_state = Some(lead.verifier_state);
    let mut helper_state: Option<V::VerifyState> = None;
    let mut hc = vdaf
        .helper_initialized(&sh.key, &sh.ctx, &sh.agg_param, &sh.nonce, &sh.public_share, &sh.input_shares[1], &lead.message)
        .map_err(|e| format!("helper_initialized: {e}"))?;
    let mut helper_done = false;
    for _ in 0..8 {
        if is_transition(&hc) {
            conts.push((1usize, hc.clone()));
        }
        let to_leader = match hc.evaluate(&sh.ctx, vdaf).map_err(|e| format!("helper evaluate: {e}"))? {
            PingPongState::Continued(c) => {
                helper_state = Some(c.verifier_state);
                c.message
            }
            PingPongState::FinishedWithOutbound { message, .. } => {
                helper_done = true;
                message
            }
            PingPongState::Finished { .. } => break,
        };
        msgs.push(to_leader.clone());
        let st = leader_state.take().ok_or("leader has no state")?;
        let lc = vdaf.leader_continued(&sh.ctx, &sh.agg_param, st, &to_leader).map_err(|e| format!("leader_continued: {e}"))?;
        if is_transition(&lc) {
            conts.push((0usize, lc.clone()));
        }
        let to_helper = match lc.evaluate(&sh.ctx, vdaf).map_err(|e| format!("leader evaluate: {e}"))? {
            PingPongState::Continued(c) => {
                leader_state = Some(c.verifier_state);
                c.message
            }
            PingPongState::FinishedWithOutbound { message, .. } => message,
            PingPongState::Finished { .. } => break,
        };
        msgs.push(to_helper.clone());
        if helper_done {
            break;
        }
        let st = helper_state.take().ok_or("helper has no state")?;
        hc = vdaf.helper_continued(&sh.ctx, &sh.agg_param, st, &to_helper).map_err(|e| format!("helper_continued: {e}"))?;
    }
    run.pp_msgs = msgs;
    run.pp_conts = conts;
    Ok(())
}

/// Description of one VDAF instance (+ aggregation parameter shape) to register.
pub struct Spec<V: Aggregator<S, 16>, const S: usize> {
    pub label: String,
    pub vdaf: Rc<V>,
    pub sharder: Rc<dyn Fn(&V, &mut Rng64) -> Result<Sharded<V, S>, String>>,
    /// Message class names.
    pub n_public: String,
    pub n_input: String,
    pub n_state: String,
    pub n_vshare: String,
    pub n_vmsg: String,
    pub n_out: String,
    pub n_agg: String,
    pub n_cont: String,
    /// Which groups of entries to register for this spec.
    pub shares: bool,
    pub states: bool,
    pub outs: bool,
    pub pingpong: bool,
    pub lay_public: Rc<dyn Fn(&[u8]) -> Option<Vec<Seg>>>,
    pub lay_input: Rc<dyn Fn(usize, &[u8]) -> Option<Vec<Seg>>>,
    pub lay_state: Rc<dyn Fn(usize, &[u8]) -> Option<Vec<Seg>>>,
    pub lay_vshare: Rc<dyn Fn(usize, &[u8]) -> Option<Vec<Seg>>>,
    pub lay_vmsg: Rc<dyn Fn(usize, &[u8]) -> Option<Vec<Seg>>>,
    pub lay_out: Rc<dyn Fn(&[u8]) -> Option<Vec<Seg>>>,
    pub vshare_eq: Option<fn(&V::VerifierShare, &V::VerifierShare) -> bool>,
    pub state_tagged: bool,
    /// Does the input-share decoder depend on the role (class names carry the role then)?
    pub input_role_in_class: bool,
}

fn role(a: usize) -> &'static str {
    if a == 0 {
        "leader"
    } else {
        "helper"
    }
}

fn add_vdaf<V, const S: usize>(reg: &mut Registry, seed: u64, spec: Spec<V, S>, pp_sources: &mut Vec<PpSource>)
where
    V: Aggregator<S, 16> + 'static,
    V::AggregationParam: 'static,
    V::PublicShare: PartialEq + 'static,
    V::InputShare: PartialEq + 'static,
    V::OutputShare: PartialEq + Eq + 'static,
    V::AggregateShare: PartialEq + 'static,
    V::VerifierShare: 'static,
    V::VerifierMessage: 'static,
    V::VerifyState: Encode + for<'a> ParameterizedDecode<(&'a V, usize)> + 'static,
{
    let vdaf = spec.vdaf.clone();
    let sharder = spec.sharder.clone();
    let want_pp = spec.pingpong;
    let runner: Rc<dyn Fn(&mut Rng64) -> Option<Run<V, S>>> = {
        let vdaf = vdaf.clone();
        Rc::new(move |rng: &mut Rng64| {
            let r = catch(|| -> Result<Run<V, S>, String> {
                let sh = sharder(&vdaf, rng)?;
                let mut run = run_broadcast(&*vdaf, sh)?;
                if want_pp {
                    run_pingpong(&*vdaf, &mut run)?;
                }
                Ok(run)
            });
            match r {
                Ok(Ok(run)) => Some(run),
                _ => None,
            }
        })
    };
    // One fixed run provides the decoding parameters that are protocol values (states) and tells
    // the shape of the instance.
    let mut prng = Rng64::derive(seed, &["codec-registry-param", &spec.label], 0);
    let probe = {
        let sh = match catch(|| (spec.sharder)(&vdaf, &mut prng)) {
            Ok(Ok(sh)) => sh,
            Ok(Err(e)) => {
                reg.problems.push(format!("{}: honest shard failed: {e}", spec.label));
                return;
            }
            Err(p) => {
                reg.problems.push(format!("{}: honest shard panicked: {} at {}", spec.label, p.message, p.location));
                return;
            }
        };
        match catch(|| {
            let mut run = run_broadcast(&*vdaf, sh)?;
            if want_pp {
                run_pingpong(&*vdaf, &mut run)?;
            }
            Ok::<_, String>(run)
        }) {
            Ok(Ok(r)) => r,
            Ok(Err(e)) => {
                reg.problems.push(format!("{}: honest run failed: {e}", spec.label));
                return;
            }
            Err(p) => {
                reg.problems.push(format!("{}: honest run panicked: {} at {}", spec.label, p.message, p.location));
                return;
            }
        }
    };
    let n_aggs = probe.sh.input_shares.len();
    let mut roles = vec![0usize, 1];
    if n_aggs > 2 {
        roles.push(n_aggs - 1);
    }
    let label = spec.label.clone();

    if spec.shares {
        // Public share.
        let (v, r, l) = (vdaf.clone(), runner.clone(), spec.lay_public.clone());
        reg.push(
            Codec::<V::PublicShare> {
                name: format!("{}|{}", spec.n_public, label),
                class: spec.n_public.clone(),
                nominal: 0,
                dec: Box::new(move |b| V::PublicShare::get_decoded_with_param(&*v, b)),
                eq: Some(|a, b| a == b),
                make: Box::new(move |rng| r(rng).map(|run| vec![(String::new(), run.sh.public_share)]).unwrap_or_default()),
                layout: Box::new(move |e| l(e)),
                arg_class: no_class,
                tagged: false,
            },
            seed,
        );
        // Input shares per role.
        for &a in &roles {
            let (v, r, l) = (vdaf.clone(), runner.clone(), spec.lay_input.clone());
            reg.push(
                Codec::<V::InputShare> {
                    name: format!("{}@{}|{}", spec.n_input, a, label),
                    class: if spec.input_role_in_class { format!("{}@{}", spec.n_input, role(a)) } else { spec.n_input.clone() },
                    nominal: 0,
                    dec: Box::new(move |b| V::InputShare::get_decoded_with_param(&(&*v, a), b)),
                    eq: Some(|a, b| a == b),
                    make: Box::new(move |rng| {
                        r(rng).map(|mut run| vec![(String::new(), run.sh.input_shares.swap_remove(a))]).unwrap_or_default()
                    }),
                    layout: Box::new(move |e| l(a, e)),
                    arg_class: no_class,
                    tagged: false,
                },
                seed,
            );
        }
    }

    let n_rounds = probe.states.len();
    if spec.states {
        for &a in &roles {
            let (v, r, l) = (vdaf.clone(), runner.clone(), spec.lay_state.clone());
            reg.push(
                Codec::<V::VerifyState> {
                    name: format!("{}@{}|{}", spec.n_state, a, label),
                    class: format!("{}@{}", spec.n_state, role(a)),
                    nominal: 0,
                    dec: Box::new(move |b| V::VerifyState::get_decoded_with_param(&(&*v, a), b)),
                    eq: Some(|a, b| a == b),
                    make: Box::new(move |rng| {
                        r(rng)
                            .map(|run| run.states.iter().enumerate().map(|(rd, st)| (format!("round{rd}"), st[a].clone())).collect())
                            .unwrap_or_default()
                    }),
                    layout: Box::new(move |e| l(a, e)),
                    arg_class: no_class,
                    tagged: spec.state_tagged,
                },
                seed,
            );
        }
        for rd in 0..n_rounds {
            // Verifier share, decoded with the (leader's) state of that round.
            let (r, l) = (runner.clone(), spec.lay_vshare.clone());
            let st = probe.states[rd][0].clone();
            reg.push(
                Codec::<V::VerifierShare> {
                    name: format!("{}/round{}|{}", spec.n_vshare, rd, label),
                    class: format!("{}/round{}", spec.n_vshare, rd),
                    nominal: 0,
                    dec: Box::new(move |b| V::VerifierShare::get_decoded_with_param(&st, b)),
                    eq: spec.vshare_eq,
                    make: Box::new(move |rng| {
                        r(rng)
                            .map(|mut run| {
                                if rd < run.ver_shares.len() {
                                    run.ver_shares.swap_remove(rd).into_iter().map(|s| (String::new(), s)).collect()
                                } else {
                                    vec![]
                                }
                            })
                            .unwrap_or_default()
                    }),
                    layout: Box::new(move |e| l(rd, e)),
                    arg_class: no_class,
                    tagged: false,
                },
                seed,
            );
            // Verifier message, decoded with the helper's state of that round.
            let (r, l) = (runner.clone(), spec.lay_vmsg.clone());
            let st = probe.states[rd][1.min(n_aggs - 1)].clone();
            reg.push(
                Codec::<V::VerifierMessage> {
                    name: format!("{}/round{}|{}", spec.n_vmsg, rd, label),
                    class: format!("{}/round{}", spec.n_vmsg, rd),
                    nominal: 0,
                    dec: Box::new(move |b| V::VerifierMessage::get_decoded_with_param(&st, b)),
                    eq: Some(|a, b| a == b),
                    make: Box::new(move |rng| {
                        r(rng)
                            .map(|mut run| if rd < run.ver_msgs.len() { vec![(String::new(), run.ver_msgs.swap_remove(rd))] } else { vec![] })
                            .unwrap_or_default()
                    }),
                    layout: Box::new(move |e| l(rd, e)),
                    arg_class: no_class,
                    tagged: false,
                },
                seed,
            );
        }
    }

    if spec.outs {
        let (v, r, l) = (vdaf.clone(), runner.clone(), spec.lay_out.clone());
        let ap = probe.sh.agg_param.clone();
        reg.push(
            Codec::<V::OutputShare> {
                name: format!("{}|{}", spec.n_out, label),
                class: spec.n_out.clone(),
                nominal: 0,
                dec: Box::new(move |b| V::OutputShare::get_decoded_with_param(&(&*v, &ap), b)),
                eq: Some(|a, b| a == b),
                make: Box::new(move |rng| r(rng).map(|run| run.outputs.into_iter().map(|o| (String::new(), o)).collect()).unwrap_or_default()),
                layout: Box::new(move |e| l(e)),
                arg_class: no_class,
                tagged: false,
            },
            seed,
        );
        let (v, r, l) = (vdaf.clone(), runner.clone(), spec.lay_out.clone());
        let ap = probe.sh.agg_param.clone();
        reg.push(
            Codec::<V::AggregateShare> {
                name: format!("{}|{}", spec.n_agg, label),
                class: spec.n_agg.clone(),
                nominal: 0,
                dec: Box::new(move |b| V::AggregateShare::get_decoded_with_param(&(&*v, &ap), b)),
                eq: Some(|a, b| a == b),
                make: Box::new(move |rng| r(rng).map(|run| run.agg_shares.into_iter().map(|o| (String::new(), o)).collect()).unwrap_or_default()),
                layout: Box::new(move |e| l(e)),
                arg_class: no_class,
                tagged: false,
            },
            seed,
        );
    }

    if spec.pingpong && n_aggs == 2 {
        for a in [0usize, 1] {
            if !probe.pp_conts.iter().any(|(id, _)| *id == a) {
                continue;
            }
            let (v, r) = (vdaf.clone(), runner.clone());
            let (ls, lm) = (spec.lay_state.clone(), spec.lay_vmsg.clone());
            let lens: Vec<usize> = probe
                .states
                .iter()
                .map(|st| {
                    let mut b = vec![];
                    let _ = st[a].encode(&mut b);
                    b.len()
                })
                .collect();
            reg.push(
                Codec::<PingPongContinuation<S, 16, V>> {
                    name: format!("{}@{}|{}", spec.n_cont, a, label),
                    class: format!("{}@{}", spec.n_cont, role(a)),
                    nominal: 0,
                    dec: Box::new(move |b| PingPongContinuation::<S, 16, V>::get_decoded_with_param(&(&*v, a), b)),
                    eq: Some(|a, b| a == b),
                    make: Box::new(move |rng| {
                        r(rng)
                            .map(|run| {
                                run.pp_conts.into_iter().filter(|(id, _)| *id == a).enumerate().map(|(i, (_, c))| (format!("cont{i}"), c)).collect()
                            })
                            .unwrap_or_default()
                    }),
                    // state of some round followed by the message of that round
                    layout: Box::new(move |e| {
                        for (rd, sl) in lens.iter().enumerate() {
                            if *sl <= e.len() {
                                if let (Some(mut l1), Some(l2)) = (ls(a, &e[..*sl]), lm(rd, &e[*sl..])) {
                                    l1.extend(l2);
                                    return Some(l1);
                                }
                            }
                        }
                        None
                    }),
                    arg_class: no_class,
                    tagged: spec.state_tagged,
                },
                seed,
            );
        }
        let r = runner.clone();
        pp_sources.push(Rc::new(move |rng| r(rng).map(|run| run.pp_msgs).unwrap_or_default()));
    }
}

type PpSource = Rc<dyn Fn(&mut Rng64) -> Vec<PingPongMessage>>;

// ---------------------------------------------------------------------------------------------
// Prio3 instances
// ---------------------------------------------------------------------------------------------

fn gen_ctx(rng: &mut Rng64) -> Vec<u8> {
    match rng.below(4) {
        0 => vec![],
        1 => b"codec ctx".to_vec(),
        _ => {
            let n = rng.usize_below(24);
            rng.bytes(n)
        }
    }
}

fn gen_tape(rng: &mut Rng64, n: usize) -> Vec<u8> {
    match rng.below(8) {
        0 => vec![0u8; n],
        1 => vec![0xff; n],
        _ => rng.bytes(n),
    }
}

#[allow(clippy::too_many_arguments)]
fn add_prio3<T, P, const S: usize>(
    reg: &mut Registry,
    seed: u64,
    pp: &mut Vec<PpSource>,
    label: &str,
    typ: T,
    aggs: u8,
    proofs: u8,
    meas: Rc<dyn Fn(&mut Rng64) -> T::Measurement>,
    full: bool,
) where
    T: Type + 'static,
    T::Field: FK,
    P: Xof<S> + 'static,
{
    let k = <T::Field as FK>::KIND;
    let (input_len, proof_len, ver_len, out_len, jr) =
        (typ.input_len(), typ.proof_len() * proofs as usize, typ.verifier_len() * proofs as usize, typ.output_len(), typ.joint_rand_len() > 0);
    let vdaf = match Prio3::<T, P, S>::new(aggs, proofs, 0xFFFF_1234, typ) {
        Ok(v) => v,
        Err(e) => {
            reg.problems.push(format!("{label}: constructor refused: {e}"));
            return;
        }
    };
    let rand_size = if jr { 2 * aggs as usize * S } else { aggs as usize * S };
    let seedseg = move |present: bool| if present { vec![Seg::Opaque(S)] } else { vec![] };
    let exact = |l: Vec<Seg>| move |e: &[u8]| if layout_len(&l) == e.len() { Some(l.clone()) } else { None };
    let lay_public = exact(if jr { vec![Seg::Opaque(S * aggs as usize)] } else { vec![] });
    let mut leader_in = vec![Seg::Field(k, input_len), Seg::Field(k, proof_len)];
    leader_in.extend(seedseg(jr));
    let mut helper_in = vec![Seg::Opaque(S)];
    helper_in.extend(seedseg(jr));
    let mut leader_st = vec![Seg::Field(k, out_len)];
    leader_st.extend(seedseg(jr));
    let mut helper_st = vec![Seg::Opaque(S)];
    helper_st.extend(seedseg(jr));
    let mut vshare = vec![Seg::Field(k, ver_len)];
    vshare.extend(seedseg(jr));
    let vmsg = seedseg(jr);
    let (li, hi, ls, hs) = (exact(leader_in), exact(helper_in), exact(leader_st), exact(helper_st));
    let (lvs, lvm, lo) = (exact(vshare), exact(vmsg), exact(vec![Seg::Field(k, out_len)]));
    let spec = Spec::<Prio3<T, P, S>, S> {
        label: label.to_string(),
        vdaf: Rc::new(vdaf),
        sharder: Rc::new(move |v, rng| {
            let ctx = gen_ctx(rng);
            let nonce: [u8; 16] = rng.array_edge();
            let key: [u8; S] = rng.array_edge();
            let m = meas(rng);
            let tape = gen_tape(rng, rand_size);
            let (public_share, input_shares) = v.shard_with_random(&ctx, &m, &nonce, &tape).map_err(|e| e.to_string())?;
            Ok(Sharded { key, ctx, nonce, agg_param: (), public_share, input_shares })
        }),
        n_public: format!("Prio3PublicShare<{S}>"),
        n_input: format!("Prio3InputShare<{},{S}>", k.name()),
        n_state: format!("Prio3VerifyState<{},{S}>", k.name()),
        n_vshare: format!("Prio3VerifierShare<{},{S}>", k.name()),
        n_vmsg: format!("Prio3VerifierMessage<{S}>"),
        n_out: format!("OutputShare<{}>", k.name()),
        n_agg: format!("AggregateShare<{}>", k.name()),
        n_cont: format!("PingPongContinuation<Prio3<{},{S}>>", k.name()),
        shares: true,
        states: true,
        outs: full,
        pingpong: aggs == 2,
        lay_public: Rc::new(lay_public),
        lay_input: Rc::new(move |a: usize, e: &[u8]| if a == 0 { li(e) } else { hi(e) }),
        lay_state: Rc::new(move |a: usize, e: &[u8]| if a == 0 { ls(e) } else { hs(e) }),
        lay_vshare: Rc::new(move |_: usize, e: &[u8]| lvs(e)),
        lay_vmsg: Rc::new(move |_: usize, e: &[u8]| lvm(e)),
        lay_out: Rc::new(lo),
        vshare_eq: Some(|a, b| a == b),
        state_tagged: false,
        input_role_in_class: true,
    };
    add_vdaf(reg, seed, spec, pp);
}

fn add_prio3_all(reg: &mut Registry, seed: u64, pp: &mut Vec<PpSource>) {
    type TS = XofTurboShake128;
    add_prio3::<_, TS, 32>(reg, seed, pp, "Prio3Count(F64)x2p1/ts", Count::<Field64>::new(), 2, 1, Rc::new(|r| r.bool()), true);
    add_prio3::<_, TS, 32>(
        reg, seed, pp, "Prio3Sum(F64,max=1000)x3p2/ts", Sum::<Field64>::new(1000).unwrap(), 3, 2,
        Rc::new(|r| match r.below(3) { 0 => 0, 1 => 1000, _ => r.below(1001) }), true,
    );
    add_prio3::<_, TS, 32>(
        reg, seed, pp, "Prio3SumVec(F128,max=7,len=5,chunk=3)x2p1/ts",
        SumVec::<Field128, ParallelSum<Field128, Mul>>::new(7, 5, 3).unwrap(), 2, 1,
        Rc::new(|r| (0..5).map(|_| r.below(8) as u128).collect()), true,
    );
    add_prio3::<_, TS, 32>(
        reg, seed, pp, "Prio3Histogram(F128,len=10,chunk=4)x4p1/ts",
        Histogram::<Field128, ParallelSum<Field128, Mul>>::new(10, 4).unwrap(), 4, 1,
        Rc::new(|r| r.usize_below(10)), true,
    );
    add_prio3::<_, TS, 32>(
        reg, seed, pp, "Prio3MultihotCountVec(F128,len=8,w=3,chunk=3)x2p3/ts",
        MultihotCountVec::<Field128, ParallelSum<Field128, Mul>>::new(8, 3, 3).unwrap(), 2, 3,
        Rc::new(|r| {
            let mut v = vec![false; 8];
            for _ in 0..r.below(4) {
                let i = r.usize_below(8);
                v[i] = true;
            }
            v
        }), false,
    );
    add_prio3::<_, XofHmacSha256Aes128, 32>(
        reg, seed, pp, "Prio3L1BoundSum(F128,max=9,len=4,chunk=2)x3p1/hmac",
        L1BoundSum::<Field128, ParallelSum<Field128, Mul>>::new(9, 4, 2).unwrap(), 3, 1,
        Rc::new(|r| {
            let mut left = r.below(10) as u128;
            let mut v = vec![0u128; 4];
            for x in v.iter_mut() {
                let t = r.below(left as u64 + 1) as u128;
                *x = t;
                left -= t;
            }
            v
        }), false,
    );
    add_prio3::<_, TS, 32>(
        reg, seed, pp, "Prio3Average(F128,max=255)x2p1/ts", Average::<Field128>::new(255).unwrap(), 2, 1,
        Rc::new(|r| r.below(256) as u128), false,
    );
    add_prio3::<_, TS, 32>(
        reg, seed, pp, "Prio3SumVec(F64,max=1,len=12,chunk=4)x5p2/ts",
        SumVec::<Field64, ParallelSum<Field64, Mul>>::new(1, 12, 4).unwrap(), 5, 2,
        Rc::new(|r| (0..12).map(|_| r.below(2)).collect()), true,
    );
    // 16-byte seeds: the generic constructor with the fixed-key AES XOF.
    add_prio3::<_, XofFixedKeyAes128, 16>(
        reg, seed, pp, "Prio3Histogram(F128,len=6,chunk=2)x2p1/fixedkey16",
        Histogram::<Field128, ParallelSum<Field128, Mul>>::new(6, 2).unwrap(), 2, 1,
        Rc::new(|r| r.usize_below(6)), true,
    );
}

// ---------------------------------------------------------------------------------------------
// Poplar1 instances
// ---------------------------------------------------------------------------------------------

fn idpf_public_layout(bits: usize, inner: Vec<Seg>, leaf: Vec<Seg>) -> Vec<Seg> {
    let mut l = vec![Seg::ControlBits { bytes: bits.div_ceil(4), used_bits: 2 * bits }, Seg::Opaque(16 * bits)];
    for _ in 0..bits - 1 {
        l.extend(inner.iter().cloned());
    }
    l.extend(leaf);
    l
}

fn gen_bools(rng: &mut Rng64, n: usize) -> Vec<bool> {
    match rng.below(5) {
        0 => vec![false; n],
        1 => vec![true; n],
        _ => (0..n).map(|_| rng.bool()).collect(),
    }
}

/// `count` distinct sorted prefixes of `len` bits (count is reduced if the space is smaller).
fn gen_prefixes(rng: &mut Rng64, len: usize, count: usize, include: Option<&[bool]>) -> Vec<IdpfInput> {
    let mut set: std::collections::BTreeSet<Vec<bool>> = Default::default();
    if let Some(m) = include {
        set.insert(m[..len].to_vec());
    }
    let space = if len >= 16 { usize::MAX } else { 1usize << len };
    let want = count.min(space);
    let mut guard = 0;
    while set.len() < want && guard < 10_000 {
        set.insert(gen_bools(rng, len).iter().enumerate().map(|(i, b)| if i % 3 == 0 { rng.bool() } else { *b }).collect());
        guard += 1;
    }
    set.into_iter().map(|b| IdpfInput::from_bools(&b)).collect()
}

fn poplar1_state_layout(e: &[u8]) -> Option<Vec<Seg>> {
    if e.len() < 2 {
        return None;
    }
    let k = match e[0] {
        0 => FieldKind::F64,
        1 => FieldKind::F255,
        _ => return None,
    };
    let mut l = vec![Seg::Tag { max_valid: 1 }, Seg::Tag { max_valid: 1 }];
    let mut off = 2;
    match e[1] {
        0 => {
            l.push(Seg::Field(k, 2));
            off += 2 * k.size();
        }
        1 => {}
        _ => return None,
    }
    if e.len() < off + 4 {
        return None;
    }
    let n = u32::from_be_bytes(e[off..off + 4].try_into().unwrap()) as usize;
    l.push(Seg::Len(4));
    l.push(Seg::Field(k, n));
    if layout_len(&l) == e.len() {
        Some(l)
    } else {
        None
    }
}

fn poplar1_fieldvec_layout(e: &[u8], k: FieldKind) -> Option<Vec<Seg>> {
    if e.len() % k.size() == 0 {
        Some(vec![Seg::Field(k, e.len() / k.size())])
    } else {
        None
    }
}

#[allow(clippy::too_many_arguments)]
fn add_poplar1<P, const S: usize>(
    reg: &mut Registry,
    seed: u64,
    pp: &mut Vec<PpSource>,
    xof: &str,
    bits: usize,
    leaf: bool,
    n_prefixes: usize,
    shares: bool,
    states: bool,
) where
    P: Xof<S> + 'static,
{
    let level = if leaf { bits - 1 } else { (bits - 1) / 2 };
    let k = if leaf { FieldKind::F255 } else { FieldKind::F64 };
    let mut prng = Rng64::derive(seed, &["codec-registry-poplar1-prefixes", xof], (bits * 2 + leaf as usize) as u64);
    let prefixes = gen_prefixes(&mut prng, level + 1, n_prefixes, None);
    let agg_param = match Poplar1AggregationParam::try_from_prefixes(prefixes) {
        Ok(a) => a,
        Err(e) => {
            reg.problems.push(format!("Poplar1 bits={bits}: aggregation parameter refused: {e}"));
            return;
        }
    };
    let np = agg_param.prefixes().len();
    let label = format!("Poplar1<{xof},{S}>(bits={bits})/{}-level{level}x{np}", if leaf { "leaf" } else { "inner" });
    let ap = agg_param.clone();
    let inner_cw = vec![Seg::Field(FieldKind::F64, 2)];
    let leaf_cw = vec![Seg::Field(FieldKind::F255, 2)];
    let pub_l = idpf_public_layout(bits, inner_cw, leaf_cw);
    let in_l = vec![Seg::Opaque(16), Seg::Opaque(S), Seg::Field(FieldKind::F64, 2 * (bits - 1)), Seg::Field(FieldKind::F255, 2)];
    let exact = |l: Vec<Seg>| move |e: &[u8]| if layout_len(&l) == e.len() { Some(l.clone()) } else { None };
    let (lp, li) = (exact(pub_l), exact(in_l));
    let spec = Spec::<Poplar1<P, S>, S> {
        label,
        vdaf: Rc::new(Poplar1::<P, S>::new(bits)),
        sharder: Rc::new(move |v, rng| {
            let ctx = gen_ctx(rng);
            let nonce: [u8; 16] = rng.array_edge();
            let key: [u8; S] = rng.array_edge();
            // Half of the measurements extend one of the candidate prefixes.
            let mut m = gen_bools(rng, bits);
            if rng.bool() {
                let p = &ap.prefixes()[rng.usize_below(ap.prefixes().len())];
                for (i, b) in p.iter().enumerate() {
                    m[i] = b;
                }
            }
            let tape = gen_tape(rng, 32 + 3 * S);
            let (public_share, input_shares) =
                v.shard_with_random(&ctx, &IdpfInput::from_bools(&m), &nonce, &tape).map_err(|e| e.to_string())?;
            Ok(Sharded { key, ctx, nonce, agg_param: ap.clone(), public_share, input_shares })
        }),
        n_public: "Poplar1PublicShare".into(),
        n_input: format!("Poplar1InputShare<{S}>"),
        n_state: "Poplar1VerifierState".into(),
        n_vshare: format!("Poplar1FieldVec(verifier-share,{})", k.name()),
        n_vmsg: format!("Poplar1VerifierMessage({})", k.name()),
        n_out: format!("Poplar1FieldVec(output-share,{})", k.name()),
        n_agg: format!("Poplar1FieldVec(aggregate-share,{})", k.name()),
        n_cont: format!("PingPongContinuation<Poplar1<{S}>>"),
        shares,
        states,
        outs: true,
        pingpong: states,
        lay_public: Rc::new(lp),
        lay_input: Rc::new(move |_: usize, e: &[u8]| li(e)),
        lay_state: Rc::new(|_: usize, e: &[u8]| poplar1_state_layout(e)),
        lay_vshare: Rc::new(move |_: usize, e: &[u8]| poplar1_fieldvec_layout(e, k)),
        lay_vmsg: Rc::new(move |_: usize, e: &[u8]| poplar1_fieldvec_layout(e, k)),
        lay_out: Rc::new(move |e: &[u8]| poplar1_fieldvec_layout(e, k)),
        vshare_eq: Some(|a, b| a == b),
        state_tagged: true,
        input_role_in_class: false,
    };
    add_vdaf(reg, seed, spec, pp);
}

fn agg_param_arg_class(input: &[u8]) -> String {
    if input.len() >= 2 && input[0] == 0xff && input[1] == 0xff {
        "level=0xffff".into()
    } else {
        "level<0xffff".into()
    }
}

fn add_poplar1_agg_param(reg: &mut Registry, seed: u64) {
    let c = Codec::<Poplar1AggregationParam> {
        name: "Poplar1AggregationParam|-".into(),
        class: "Poplar1AggregationParam".into(),
        nominal: 0,
        dec: Box::new(|b| Poplar1AggregationParam::get_decoded(b)),
        eq: Some(|a, b| a == b),
        make: Box::new(|rng| {
            let mut out = vec![];
            // shallow levels incl. byte boundaries; one deep and the deepest level
            let mut levels = vec![0usize, 1, 6, 7, 8, 15, 16, 63];
            levels.push(rng.usize_below(300));
            if rng.chance(1, 2) {
                levels.push(65534);
            } else {
                levels.push(65535);
            }
            for level in levels {
                let count = if level > 1000 { 1 + rng.usize_below(2) } else { 1 + rng.usize_below(6) };
                let p = gen_prefixes(rng, level + 1, count, None);
                if let Ok(a) = Poplar1AggregationParam::try_from_prefixes(p) {
                    out.push((format!("level={level}"), a));
                }
            }
            out
        }),
        layout: Box::new(|e| {
            if e.len() < 6 {
                return None;
            }
            let level = u16::from_be_bytes([e[0], e[1]]) as usize;
            let n = u32::from_be_bytes(e[2..6].try_into().unwrap()) as usize;
            let each = (level + 1).div_ceil(8);
            if n.checked_mul(each)? != e.len() - 6 {
                return None;
            }
            Some(vec![Seg::Level, Seg::Len(4), Seg::Prefixes { count: n, bytes_each: each, used_bits: level + 1 }])
        }),
        arg_class: agg_param_arg_class,
        tagged: true,
    };
    reg.push(c, seed);
}

fn add_poplar1_all(reg: &mut Registry, seed: u64, pp: &mut Vec<PpSource>) {
    type TS = XofTurboShake128;
    // bits = 1: leaf level only.
    add_poplar1::<TS, 32>(reg, seed, pp, "ts", 1, true, 2, true, true);
    add_poplar1::<TS, 32>(reg, seed, pp, "ts", 2, false, 2, true, false);
    add_poplar1::<TS, 32>(reg, seed, pp, "ts", 2, true, 3, false, false);
    add_poplar1::<TS, 32>(reg, seed, pp, "ts", 9, false, 5, true, true);
    add_poplar1::<TS, 32>(reg, seed, pp, "ts", 9, true, 4, false, true);
    add_poplar1::<TS, 32>(reg, seed, pp, "ts", 64, false, 3, true, false);
    add_poplar1::<TS, 32>(reg, seed, pp, "ts", 64, true, 7, false, false);
    // a longer instance whose control bits do not fill the last byte
    add_poplar1::<TS, 32>(reg, seed, pp, "ts", 301, true, 2, true, false);
    // 16-byte seeds
    add_poplar1::<XofFixedKeyAes128, 16>(reg, seed, pp, "fixedkey", 2, false, 2, true, true);
    add_poplar1::<XofFixedKeyAes128, 16>(reg, seed, pp, "fixedkey", 10, true, 3, true, false);
    add_poplar1_agg_param(reg, seed);
}

// ---------------------------------------------------------------------------------------------
// IdpfPublicShare for several value types
// ---------------------------------------------------------------------------------------------

trait IdpfVal: IdpfValue<ValueParameter = ()> + Decode + Clone + subtle::ConstantTimeEq + 'static {
    fn name() -> String;
    fn seg() -> Vec<Seg>;
    fn make(rng: &mut Rng64) -> Self;
}
macro_rules! idpf_field {
    ($t:ty) => {
        impl IdpfVal for $t {
            fn name() -> String {
                <$t as FK>::KIND.name().to_string()
            }
            fn seg() -> Vec<Seg> {
                vec![Seg::Field(<$t as FK>::KIND, 1)]
            }
            fn make(rng: &mut Rng64) -> Self {
                gen_field::<$t>(rng)
            }
        }
        impl IdpfVal for Poplar1IdpfValue<$t> {
            fn name() -> String {
                format!("Poplar1IdpfValue<{}>", <$t as FK>::KIND.name())
            }
            fn seg() -> Vec<Seg> {
                vec![Seg::Field(<$t as FK>::KIND, 2)]
            }
            fn make(rng: &mut Rng64) -> Self {
                Poplar1IdpfValue::new([gen_field::<$t>(rng), gen_field::<$t>(rng)])
            }
        }
    };
}
idpf_field!(FieldPrio2);
idpf_field!(Field64);
idpf_field!(Field128);
idpf_field!(Field255);

fn add_idpf<VI: IdpfVal, VL: IdpfVal>(reg: &mut Registry, seed: u64, bits: usize) {
    let lay = idpf_public_layout(bits, VI::seg(), VL::seg());
    let c = Codec::<IdpfPublicShare<VI, VL>> {
        name: format!("IdpfPublicShare<{},{}>|bits={bits}", VI::name(), VL::name()),
        class: format!("IdpfPublicShare<{},{}>", VI::name(), VL::name()),
        nominal: 0,
        dec: Box::new(move |b| IdpfPublicShare::<VI, VL>::get_decoded_with_param(&bits, b)),
        eq: Some(|a, b| a == b),
        make: Box::new(move |rng| {
            // `Idpf::gen` draws the two root keys from the OS; everything else is scripted.
            let idpf = Idpf::<VI, VL>::new((), ());
            let input = IdpfInput::from_bools(&gen_bools(rng, bits));
            let inner: Vec<VI> = (0..bits - 1).map(|_| VI::make(rng)).collect();
            let leaf = VL::make(rng);
            let ctx = gen_ctx(rng);
            let nonce: [u8; 16] = rng.array_edge();
            match catch(|| idpf.gen(&input, inner, leaf, &ctx, &nonce)) {
                Ok(Ok((ps, _keys))) => vec![(String::new(), ps)],
                _ => vec![],
            }
        }),
        layout: fixed_layout(lay),
        arg_class: no_class,
        tagged: false,
    };
    reg.push(c, seed);
}

// ---------------------------------------------------------------------------------------------
// Prio2, dummy, ping-pong message, unit
// ---------------------------------------------------------------------------------------------

fn add_prio2(reg: &mut Registry, seed: u64, pp: &mut Vec<PpSource>, input_len: usize) {
    let vdaf = match Prio2::new(input_len) {
        Ok(v) => v,
        Err(e) => {
            reg.problems.push(format!("Prio2({input_len}): {e}"));
            return;
        }
    };
    let k = FieldKind::Prio2;
    let proof_length = input_len + 3 + (input_len + 1).next_power_of_two();
    let exact = |l: Vec<Seg>| move |e: &[u8]| if layout_len(&l) == e.len() { Some(l.clone()) } else { None };
    let (li, hi) = (exact(vec![Seg::Field(k, proof_length)]), exact(vec![Seg::Opaque(32)]));
    let (ls, hs) = (exact(vec![Seg::Field(k, input_len)]), exact(vec![Seg::Opaque(32)]));
    let (lvs, lo, empty) = (exact(vec![Seg::Field(k, 3)]), exact(vec![Seg::Field(k, input_len)]), exact(vec![]));
    let empty2 = empty.clone();
    let spec = Spec::<Prio2, 32> {
        label: format!("Prio2(input_len={input_len})"),
        vdaf: Rc::new(vdaf),
        sharder: Rc::new(move |v, rng| {
            let ctx = gen_ctx(rng);
            let nonce: [u8; 16] = rng.array_edge();
            let key: [u8; 32] = rng.array_edge();
            let m: Vec<u32> = (0..input_len).map(|_| rng.below(2) as u32).collect();
            // Prio2::shard draws the helper seed from the OS (no scripted entry point).
            let (public_share, input_shares) = v.shard(&ctx, &m, &nonce).map_err(|e| e.to_string())?;
            Ok(Sharded { key, ctx, nonce, agg_param: (), public_share, input_shares })
        }),
        n_public: "unit(Prio2 public share)".into(),
        n_input: "Share<FieldPrio2,32>(Prio2 input share)".into(),
        n_state: "Prio2VerifierState".into(),
        n_vshare: "Prio2VerifierShare".into(),
        n_vmsg: "unit(Prio2 verifier message)".into(),
        n_out: "OutputShare<FieldPrio2>".into(),
        n_agg: "AggregateShare<FieldPrio2>".into(),
        n_cont: "PingPongContinuation<Prio2>".into(),
        shares: true,
        states: true,
        outs: true,
        pingpong: true,
        lay_public: Rc::new(empty),
        lay_input: Rc::new(move |a: usize, e: &[u8]| if a == 0 { li(e) } else { hi(e) }),
        lay_state: Rc::new(move |a: usize, e: &[u8]| if a == 0 { ls(e) } else { hs(e) }),
        lay_vshare: Rc::new(move |_: usize, e: &[u8]| lvs(e)),
        lay_vmsg: Rc::new(move |_: usize, e: &[u8]| empty2(e)),
        lay_out: Rc::new(lo),
        // Prio2VerifierShare has no PartialEq: equality by re-encoding only.
        vshare_eq: None,
        state_tagged: false,
        input_role_in_class: true,
    };
    add_vdaf(reg, seed, spec, pp);
}

fn add_dummy(reg: &mut Registry, seed: u64, pp: &mut Vec<PpSource>, rounds: u32) {
    let exact = |l: Vec<Seg>| move |e: &[u8]| if layout_len(&l) == e.len() { Some(l.clone()) } else { None };
    let (one, five, eight, empty) = (exact(vec![Seg::Opaque(1)]), exact(vec![Seg::Opaque(1), Seg::Opaque(4)]), exact(vec![Seg::Opaque(8)]), exact(vec![]));
    let (empty2, empty3) = (empty.clone(), empty.clone());
    let spec = Spec::<dummy::Vdaf, 0> {
        label: format!("dummy(rounds={rounds})"),
        vdaf: Rc::new(dummy::Vdaf::new(rounds)),
        sharder: Rc::new(move |v, rng| {
            let ctx = gen_ctx(rng);
            let nonce: [u8; 16] = rng.array_edge();
            let m = rng.u64() as u8;
            let (public_share, input_shares) = v.shard(&ctx, &m, &nonce).map_err(|e| e.to_string())?;
            Ok(Sharded { key: [], ctx, nonce, agg_param: dummy::AggregationParam(rng.u64() as u8), public_share, input_shares })
        }),
        n_public: "unit(dummy public share)".into(),
        n_input: "dummy::InputShare".into(),
        n_state: "dummy::VerifierState".into(),
        n_vshare: "unit(dummy verifier share)".into(),
        n_vmsg: "unit(dummy verifier message)".into(),
        n_out: "dummy::OutputShare".into(),
        n_agg: "dummy::AggregateShare".into(),
        n_cont: "PingPongContinuation<dummy>".into(),
        shares: true,
        states: true,
        outs: true,
        pingpong: true,
        lay_public: Rc::new(empty),
        lay_input: Rc::new(move |_: usize, e: &[u8]| one(e)),
        lay_state: Rc::new(move |_: usize, e: &[u8]| five(e)),
        lay_vshare: Rc::new(move |_: usize, e: &[u8]| empty2(e)),
        lay_vmsg: Rc::new(move |_: usize, e: &[u8]| empty3(e)),
        lay_out: Rc::new(eight),
        vshare_eq: Some(|a, b| a == b),
        state_tagged: false,
        input_role_in_class: false,
    };
    add_vdaf(reg, seed, spec, pp);
    if rounds == 2 {
        reg.push(
            Codec::<dummy::AggregationParam> {
                name: "dummy::AggregationParam|-".into(),
                class: "dummy::AggregationParam".into(),
                nominal: 0,
                dec: Box::new(|b| dummy::AggregationParam::get_decoded(b)),
                eq: Some(|a, b| a == b),
                make: Box::new(|rng| vec![(String::new(), dummy::AggregationParam(rng.u64() as u8))]),
                layout: fixed_layout(vec![Seg::Opaque(1)]),
                arg_class: no_class,
                tagged: false,
            },
            seed,
        );
    }
}

fn pingpong_message_layout(e: &[u8]) -> Option<Vec<Seg>> {
    if e.len() < 5 || e[0] > 2 {
        return None;
    }
    let n1 = u32::from_be_bytes(e[1..5].try_into().unwrap()) as usize;
    let mut l = vec![Seg::Tag { max_valid: 2 }, Seg::Len(4), Seg::Opaque(n1)];
    if e[0] == 1 {
        let off = 5usize.checked_add(n1)?;
        if e.len() < off.checked_add(4)? {
            return None;
        }
        let n2 = u32::from_be_bytes(e[off..off + 4].try_into().unwrap()) as usize;
        l.push(Seg::Len(4));
        l.push(Seg::Opaque(n2));
    }
    if layout_len(&l) == e.len() {
        Some(l)
    } else {
        None
    }
}

fn add_pingpong_message(reg: &mut Registry, seed: u64, sources: Vec<PpSource>) {
    let c = Codec::<PingPongMessage> {
        name: "PingPongMessage|-".into(),
        class: "PingPongMessage".into(),
        nominal: 0,
        dec: Box::new(|b| PingPongMessage::get_decoded(b)),
        eq: Some(|a, b| a == b),
        make: Box::new(move |rng| {
            let mut out = vec![];
            // two protocol sources per call, plus hand-made extremes of every variant
            for _ in 0..2 {
                if sources.is_empty() {
                    break;
                }
                let s = &sources[rng.usize_below(sources.len())];
                for m in s(rng) {
                    out.push((format!("{m:?}"), m));
                }
            }
            let n = rng.usize_below(70);
            out.push(("Initialize(empty)".into(), PingPongMessage::Initialize { verifier_share: vec![] }));
            out.push(("Finish(empty)".into(), PingPongMessage::Finish { verifier_message: vec![] }));
            out.push(("Continue(empty,random)".into(), PingPongMessage::Continue { verifier_message: vec![], verifier_share: rng.bytes(n) }));
            out
        }),
        layout: Box::new(pingpong_message_layout),
        arg_class: no_class,
        tagged: true,
    };
    reg.push(c, seed);
}

#[derive(Clone, Debug, PartialEq, Eq)]
struct Unit;
impl Encode for Unit {
    fn encode(&self, b: &mut Vec<u8>) -> Result<(), CodecError> {
        ().encode(b)
    }
    fn encoded_len(&self) -> Option<usize> {
        ().encoded_len()
    }
}

// ---------------------------------------------------------------------------------------------
// Build
// ---------------------------------------------------------------------------------------------

pub fn build(seed: u64) -> Registry {
    let mut reg = Registry { entries: vec![], problems: vec![] };
    let mut pp: Vec<PpSource> = vec![];
    // Primitives.
    add_primitive::<FieldPrio2>(&mut reg, seed);
    add_primitive::<Field64>(&mut reg, seed);
    add_primitive::<Field128>(&mut reg, seed);
    add_primitive::<Field255>(&mut reg, seed);
    add_primitive::<Seed<16>>(&mut reg, seed);
    add_primitive::<Seed<32>>(&mut reg, seed);
    add_primitive::<u8>(&mut reg, seed);
    add_primitive::<u16>(&mut reg, seed);
    add_primitive::<u32>(&mut reg, seed);
    add_primitive::<u64>(&mut reg, seed);
    reg.push(
        Codec::<Unit> {
            name: "unit|-".into(),
            class: "unit".into(),
            nominal: 0,
            dec: Box::new(|b| <()>::get_decoded(b).map(|_| Unit)),
            eq: Some(|a, b| a == b),
            make: Box::new(|_| vec![(String::new(), Unit)]),
            layout: fixed_layout(vec![]),
            arg_class: no_class,
            tagged: false,
        },
        seed,
    );
    // Vector helpers.
    add_items_u8::<u8>(&mut reg, seed);
    add_items_u8::<u16>(&mut reg, seed);
    add_items_u8::<Field64>(&mut reg, seed);
    add_items_u16::<u32>(&mut reg, seed);
    add_items_u16::<Field128>(&mut reg, seed);
    add_items_u16::<Seed<16>>(&mut reg, seed);
    add_items_u32::<u8>(&mut reg, seed);
    add_items_u32::<u64>(&mut reg, seed);
    add_items_u32::<Field255>(&mut reg, seed);
    add_items_fix::<u16>(&mut reg, seed, 5);
    add_items_fix::<FieldPrio2>(&mut reg, seed, 3);
    // VDAFs.
    add_prio3_all(&mut reg, seed, &mut pp);
    add_poplar1_all(&mut reg, seed, &mut pp);
    add_prio2(&mut reg, seed, &mut pp, 1);
    add_prio2(&mut reg, seed, &mut pp, 8);
    add_dummy(&mut reg, seed, &mut pp, 1);
    add_dummy(&mut reg, seed, &mut pp, 2);
    // IDPF public shares.
    add_idpf::<Field64, Field255>(&mut reg, seed, 3);
    add_idpf::<Field128, Field128>(&mut reg, seed, 5);
    add_idpf::<Poplar1IdpfValue<Field128>, Poplar1IdpfValue<FieldPrio2>>(&mut reg, seed, 8);
    add_idpf::<FieldPrio2, Field64>(&mut reg, seed, 1);
    add_pingpong_message(&mut reg, seed, pp);
    reg
}

// ---------------------------------------------------------------------------------------------
// Degenerate decoding parameters (bits = 0), kept apart from the registry
// ---------------------------------------------------------------------------------------------

fn bits0_class(_: &[u8]) -> String {
    "bits=0".to_string()
}

fn level_ge_bits_class(_: &[u8]) -> String {
    "agg-param-level>=bits".to_string()
}

/// Entries whose decoding parameter is the publicly constructible but degenerate `bits = 0`
/// (`Poplar1::new(0)`, `IdpfPublicShare` with `bits = 0`). They have no honest values; C08 probes
/// them separately and reports under the argument class `bits=0`, so that the decision about them
/// (decoder returns an error / known finding / out of scope) is independent of the registry.
pub fn degenerate_entries() -> Vec<Box<dyn Entry>> {
    let p0: Rc<Poplar1<XofTurboShake128, 32>> = Rc::new(Poplar1::new_turboshake128(0));
    let ap = Rc::new(Poplar1AggregationParam::try_from_prefixes(vec![IdpfInput::from_bools(&[false])]).expect("harness: one 1-bit prefix"));
    let mut out: Vec<Box<dyn Entry>> = vec![];
    // (Poplar1PublicShare with bits = 0 delegates to IdpfPublicShare below: one cause, one entry)
    let v = p0.clone();
    out.push(Box::new(Codec::<<Poplar1<XofTurboShake128, 32> as prio::vdaf::Vdaf>::InputShare> {
        name: "Poplar1InputShare<32>|Poplar1<ts,32>(bits=0)".into(),
        class: "Poplar1InputShare<32>".into(),
        nominal: 0,
        dec: Box::new(move |b| ParameterizedDecode::get_decoded_with_param(&(&*v, 0usize), b)),
        eq: None,
        make: Box::new(|_| vec![]),
        layout: Box::new(|_| None),
        arg_class: bits0_class,
        tagged: false,
    }));
    let (v, a) = (p0.clone(), ap.clone());
    out.push(Box::new(Codec::<<Poplar1<XofTurboShake128, 32> as prio::vdaf::Vdaf>::OutputShare> {
        name: "Poplar1FieldVec(output-share)|Poplar1<ts,32>(bits=0)".into(),
        class: "Poplar1FieldVec(output-share)".into(),
        nominal: 0,
        dec: Box::new(move |b| ParameterizedDecode::get_decoded_with_param(&(&*v, &*a), b)),
        eq: None,
        make: Box::new(|_| vec![]),
        layout: Box::new(|_| None),
        arg_class: bits0_class,
        tagged: false,
    }));
    // Decoding parameters that do not fit together: an aggregation parameter (decodable from the wire at any
    // level up to 65535) whose level is AT or BEYOND the instance's bit length. Output / aggregate shares and
    // verifier messages decoded under such a pair must give a value or an error, never a panic.
    for (bits, level) in [(1usize, 1usize), (4, 4), (4, 5), (4, 100), (8, 65535), (64, 64), (64, 300)] {
        let pb: Rc<Poplar1<XofTurboShake128, 32>> = Rc::new(Poplar1::new_turboshake128(bits));
        let apb = Rc::new(Poplar1AggregationParam::try_from_prefixes(vec![IdpfInput::from_bools(&vec![false; level + 1]), IdpfInput::from_bools(&vec![true; level + 1])]).expect("harness: two prefixes"));
        let (v, a) = (pb.clone(), apb.clone());
        out.push(Box::new(Codec::<<Poplar1<XofTurboShake128, 32> as prio::vdaf::Vdaf>::OutputShare> {
            name: format!("Poplar1FieldVec(output-share)|Poplar1<ts,32>(bits={bits})+agg-param(level={level})"),
            class: "Poplar1FieldVec(output-share)".into(),
            nominal: 64,
            dec: Box::new(move |b| ParameterizedDecode::get_decoded_with_param(&(&*v, &*a), b)),
            eq: None,
            make: Box::new(|_| vec![]),
            layout: Box::new(|_| None),
            arg_class: level_ge_bits_class,
            tagged: false,
        }));
        let (v, a) = (pb.clone(), apb.clone());
        out.push(Box::new(Codec::<<Poplar1<XofTurboShake128, 32> as prio::vdaf::Vdaf>::AggregateShare> {
            name: format!("Poplar1FieldVec(aggregate-share)|Poplar1<ts,32>(bits={bits})+agg-param(level={level})"),
            class: "Poplar1FieldVec(aggregate-share)".into(),
            nominal: 64,
            dec: Box::new(move |b| ParameterizedDecode::get_decoded_with_param(&(&*v, &*a), b)),
            eq: None,
            make: Box::new(|_| vec![]),
            layout: Box::new(|_| None),
            arg_class: level_ge_bits_class,
            tagged: false,
        }));
    }
    out.push(Box::new(Codec::<IdpfPublicShare<Field64, Field255>> {
        name: "IdpfPublicShare<Field64,Field255>|bits=0".into(),
        class: "IdpfPublicShare<Field64,Field255>".into(),
        nominal: 0,
        dec: Box::new(|b| IdpfPublicShare::<Field64, Field255>::get_decoded_with_param(&0usize, b)),
        eq: None,
        make: Box::new(|_| vec![]),
        layout: Box::new(|_| None),
        arg_class: bits0_class,
        tagged: false,
    }));
    out
}

// ---------------------------------------------------------------------------------------------
// Shared workload helpers
// ---------------------------------------------------------------------------------------------

/// Offsets of the segments of a layout.
pub fn seg_offsets(l: &[Seg]) -> Vec<usize> {
    let mut off = 0;
    l.iter()
        .map(|s| {
            let o = off;
            off += s.len();
            o
        })
        .collect()
}

/// A random string that follows `layout`: field elements below the modulus, valid tags, the given
/// length prefixes, clean padding bits — so that it is likely to be accepted.
pub fn random_conforming(rng: &mut Rng64, template: &[u8], layout: &[Seg]) -> Vec<u8> {
    let mut out = template.to_vec();
    let offs = seg_offsets(layout);
    for (s, &o) in layout.iter().zip(&offs) {
        match s {
            Seg::Field(k, n) => {
                let p = k.modulus_le();
                for i in 0..*n {
                    let dst = &mut out[o + i * k.size()..o + (i + 1) * k.size()];
                    loop {
                        let cand = match rng.below(12) {
                            0 => vec![0u8; k.size()],
                            1 => le_sub1(&p),
                            _ => {
                                let mut b = rng.bytes(k.size());
                                if *k == FieldKind::F255 {
                                    b[31] &= 0x7f;
                                }
                                b
                            }
                        };
                        // below p? compare as little-endian integers
                        if cand.iter().rev().cmp(p.iter().rev()) == std::cmp::Ordering::Less {
                            dst.copy_from_slice(&cand);
                            break;
                        }
                    }
                }
            }
            Seg::Opaque(n) => rng.fill(&mut out[o..o + n]),
            Seg::ControlBits { bytes, used_bits } => {
                rng.fill(&mut out[o..o + bytes]);
                for bit in *used_bits..bytes * 8 {
                    out[o + bit / 8] &= !(1u8 << (bit % 8));
                }
            }
            // tags, lengths, levels and prefixes are kept from the template
            _ => {}
        }
    }
    out
}
