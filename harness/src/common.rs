//! Shared machinery for all property drivers: deterministic PRNG, shard context, result
//! accumulation (evaluations, distinct-case digests, samples, counters, violations), the panic
//! monitor, the allocation monitor and small helpers.

use serde_json::{json, Map, Value};
use std::alloc::{GlobalAlloc, Layout, System};
use std::cell::{Cell, RefCell};
use std::collections::{BTreeMap, BTreeSet};
use std::convert::Infallible;
use std::panic::{catch_unwind, AssertUnwindSafe, UnwindSafe};
use std::path::PathBuf;

// ---------------------------------------------------------------------------------------------
// Deterministic PRNG (xoshiro256**, seeded via SplitMix64)
// ---------------------------------------------------------------------------------------------

#[derive(Clone, Debug)]
pub struct Rng64 {
    s: [u64; 4],
}

fn splitmix(x: &mut u64) -> u64 {
    *x = x.wrapping_add(0x9E37_79B9_7F4A_7C15);
    let mut z = *x;
    z = (z ^ (z >> 30)).wrapping_mul(0xBF58_476D_1CE4_E5B9);
    z = (z ^ (z >> 27)).wrapping_mul(0x94D0_49BB_1331_11EB);
    z ^ (z >> 31)
}

pub fn fnv64(data: &[u8]) -> u64 {
    let mut h: u64 = 0xcbf2_9ce4_8422_2325;
    for b in data {
        h ^= *b as u64;
        h = h.wrapping_mul(0x0000_0100_0000_01B3);
    }
    h
}

/// Digest of a case signature, for distinct-case counting.
pub fn digest(parts: &[&[u8]]) -> u64 {
    let mut h: u64 = 0xcbf2_9ce4_8422_2325;
    for p in parts {
        for b in (p.len() as u64).to_le_bytes().iter().chain(p.iter()) {
            h ^= *b as u64;
            h = h.wrapping_mul(0x0000_0100_0000_01B3);
        }
    }
    h
}

pub fn digest_str(s: &str) -> u64 {
    fnv64(s.as_bytes())
}

impl Rng64 {
    pub fn new(seed: u64) -> Self {
        let mut x = seed;
        let s = [
            splitmix(&mut x),
            splitmix(&mut x),
            splitmix(&mut x),
            splitmix(&mut x),
        ];
        Rng64 { s }
    }

    /// Derive an independent stream from labels.
    pub fn derive(seed: u64, labels: &[&str], idx: u64) -> Self {
        let mut h = seed ^ 0xA5A5_5A5A_DEAD_BEEF;
        for l in labels {
            h = h.rotate_left(17) ^ fnv64(l.as_bytes());
            h = h.wrapping_mul(0x9E37_79B9_7F4A_7C15);
        }
        h ^= idx.wrapping_mul(0xD6E8_FEB8_6659_FD93);
        Rng64::new(h)
    }

    pub fn u64(&mut self) -> u64 {
        let result = self.s[1].wrapping_mul(5).rotate_left(7).wrapping_mul(9);
        let t = self.s[1] << 17;
        self.s[2] ^= self.s[0];
        self.s[3] ^= self.s[1];
        self.s[1] ^= self.s[2];
        self.s[0] ^= self.s[3];
        self.s[2] ^= t;
        self.s[3] = self.s[3].rotate_left(45);
        result
    }

    pub fn u128(&mut self) -> u128 {
        ((self.u64() as u128) << 64) | self.u64() as u128
    }

    /// Uniform in [0, n) (n > 0); tiny modulo bias is irrelevant for workload generation.
    pub fn below(&mut self, n: u64) -> u64 {
        assert!(n > 0);
        ((self.u64() as u128 * n as u128) >> 64) as u64
    }

    pub fn usize_below(&mut self, n: usize) -> usize {
        self.below(n as u64) as usize
    }

    /// Uniform in [lo, hi] inclusive.
    pub fn range(&mut self, lo: u64, hi: u64) -> u64 {
        assert!(lo <= hi);
        if lo == 0 && hi == u64::MAX {
            return self.u64();
        }
        lo + self.below(hi - lo + 1)
    }

    pub fn bool(&mut self) -> bool {
        self.u64() & 1 == 1
    }

    pub fn chance(&mut self, num: u64, den: u64) -> bool {
        self.below(den) < num
    }

    pub fn bytes(&mut self, n: usize) -> Vec<u8> {
        let mut v = vec![0u8; n];
        self.fill(&mut v);
        v
    }

    pub fn fill(&mut self, dst: &mut [u8]) {
        for chunk in dst.chunks_mut(8) {
            let w = self.u64().to_le_bytes();
            chunk.copy_from_slice(&w[..chunk.len()]);
        }
    }

    pub fn array<const N: usize>(&mut self) -> [u8; N] {
        let mut a = [0u8; N];
        self.fill(&mut a);
        a
    }

    /// One of: all zero, all ones, random.
    pub fn array_edge<const N: usize>(&mut self) -> [u8; N] {
        match self.below(6) {
            0 => [0u8; N],
            1 => [0xffu8; N],
            _ => self.array(),
        }
    }

    pub fn choose<'a, T>(&mut self, items: &'a [T]) -> &'a T {
        &items[self.usize_below(items.len())]
    }

    pub fn shuffle<T>(&mut self, items: &mut [T]) {
        for i in (1..items.len()).rev() {
            let j = self.usize_below(i + 1);
            items.swap(i, j);
        }
    }
}

impl rand_core::TryRng for Rng64 {
    type Error = Infallible;
    fn try_next_u32(&mut self) -> Result<u32, Infallible> {
        Ok(self.u64() as u32)
    }
    fn try_next_u64(&mut self) -> Result<u64, Infallible> {
        Ok(self.u64())
    }
    fn try_fill_bytes(&mut self, dst: &mut [u8]) -> Result<(), Infallible> {
        self.fill(dst);
        Ok(())
    }
}

// ---------------------------------------------------------------------------------------------
// Panic monitor
// ---------------------------------------------------------------------------------------------

#[derive(Clone, Debug)]
pub struct PanicInfo {
    pub message: String,
    /// "file:line"
    pub location: String,
}

impl PanicInfo {
    /// Stable class of the panic for signatures: source file (without line, independent of where
    /// the repository copy lives) + leading message words with every run of digits collapsed.
    pub fn class(&self) -> String {
        let file = self.location.split(':').next().unwrap_or("?");
        let file = if let Some(i) = file.find("/library/") {
            &file[i + 1..]
        } else if let Some(i) = file.find("/src/") {
            &file[i + 1..]
        } else {
            file
        };
        let mut msg = String::new();
        let mut in_digits = false;
        for c in self.message.chars() {
            if c.is_ascii_digit() {
                if !in_digits {
                    msg.push('#');
                }
                in_digits = true;
            } else {
                in_digits = false;
                msg.push(c);
            }
            if msg.len() >= 60 {
                break;
            }
        }
        format!("{file}:{msg}")
    }
}

thread_local! {
    static LAST_PANIC: RefCell<Option<PanicInfo>> = const { RefCell::new(None) };
    static QUIET: Cell<u32> = const { Cell::new(0) };
}

pub fn install_panic_hook() {
    let default = std::panic::take_hook();
    std::panic::set_hook(Box::new(move |info| {
        let message = if let Some(s) = info.payload().downcast_ref::<&str>() {
            s.to_string()
        } else if let Some(s) = info.payload().downcast_ref::<String>() {
            s.clone()
        } else {
            "<non-string panic>".to_string()
        };
        let location = info
            .location()
            .map(|l| format!("{}:{}", l.file(), l.line()))
            .unwrap_or_else(|| "?".into());
        let quiet = QUIET.with(|q| q.get()) > 0;
        LAST_PANIC.with(|p| {
            *p.borrow_mut() = Some(PanicInfo {
                message: message.clone(),
                location: location.clone(),
            })
        });
        if !quiet {
            default(info);
        }
    }));
}

/// Run `f`, turning a panic into a recorded event.
pub fn catch<T>(f: impl FnOnce() -> T) -> Result<T, PanicInfo> {
    QUIET.with(|q| q.set(q.get() + 1));
    LAST_PANIC.with(|p| *p.borrow_mut() = None);
    let r = catch_unwind(AssertUnwindSafe(f));
    QUIET.with(|q| q.set(q.get() - 1));
    match r {
        Ok(v) => Ok(v),
        Err(_) => Err(LAST_PANIC
            .with(|p| p.borrow_mut().take())
            .unwrap_or(PanicInfo {
                message: "<panic on another thread>".into(),
                location: "?".into(),
            })),
    }
}

#[allow(dead_code)]
pub fn catch_us<T>(f: impl FnOnce() -> T + UnwindSafe) -> Result<T, PanicInfo> {
    catch(f)
}

// ---------------------------------------------------------------------------------------------
// Allocation monitor
// ---------------------------------------------------------------------------------------------

pub struct MonitorAlloc;

thread_local! {
    static A_LIVE: Cell<usize> = const { Cell::new(0) };
    static A_PEAK: Cell<usize> = const { Cell::new(0) };
    static A_LARGEST: Cell<usize> = const { Cell::new(0) };
    static A_REFUSED: Cell<usize> = const { Cell::new(0) };
}

/// Requests above this are refused (null) so that a runaway `with_capacity` becomes a recorded
/// event followed by the standard allocation-failure abort of the shard, never machine OOM.
pub const ALLOC_HARD_CAP: usize = 4 << 30;

unsafe impl GlobalAlloc for MonitorAlloc {
    unsafe fn alloc(&self, layout: Layout) -> *mut u8 {
        let size = layout.size();
        let _ = A_LARGEST.try_with(|c| {
            if size > c.get() {
                c.set(size)
            }
        });
        if size > ALLOC_HARD_CAP {
            let _ = A_REFUSED.try_with(|c| c.set(size));
            return std::ptr::null_mut();
        }
        let p = System.alloc(layout);
        if !p.is_null() {
            let _ = A_LIVE.try_with(|c| {
                let v = c.get().wrapping_add(size);
                c.set(v);
                let _ = A_PEAK.try_with(|pk| {
                    if v > pk.get() && v < (usize::MAX >> 1) {
                        pk.set(v)
                    }
                });
            });
        }
        p
    }
    /// Zeroed requests go to the system's calloc (lazily zeroed pages) instead of the default
    /// alloc + memset: a decoder that reserves gigabytes from a length prefix is then RECORDED (largest
    /// request, peak) without the monitor itself touching every page of it.
    unsafe fn alloc_zeroed(&self, layout: Layout) -> *mut u8 {
        let size = layout.size();
        let _ = A_LARGEST.try_with(|c| {
            if size > c.get() {
                c.set(size)
            }
        });
        if size > ALLOC_HARD_CAP {
            let _ = A_REFUSED.try_with(|c| c.set(size));
            return std::ptr::null_mut();
        }
        let p = System.alloc_zeroed(layout);
        if !p.is_null() {
            let _ = A_LIVE.try_with(|c| {
                let v = c.get().wrapping_add(size);
                c.set(v);
                let _ = A_PEAK.try_with(|pk| {
                    if v > pk.get() && v < (usize::MAX >> 1) {
                        pk.set(v)
                    }
                });
            });
        }
        p
    }
    unsafe fn dealloc(&self, ptr: *mut u8, layout: Layout) {
        let _ = A_LIVE.try_with(|c| c.set(c.get().wrapping_sub(layout.size())));
        System.dealloc(ptr, layout)
    }
    unsafe fn realloc(&self, ptr: *mut u8, layout: Layout, new_size: usize) -> *mut u8 {
        let _ = A_LARGEST.try_with(|c| {
            if new_size > c.get() {
                c.set(new_size)
            }
        });
        if new_size > ALLOC_HARD_CAP {
            let _ = A_REFUSED.try_with(|c| c.set(new_size));
            return std::ptr::null_mut();
        }
        let p = System.realloc(ptr, layout, new_size);
        if !p.is_null() {
            let _ = A_LIVE.try_with(|c| {
                let v = c.get().wrapping_sub(layout.size()).wrapping_add(new_size);
                c.set(v);
                let _ = A_PEAK.try_with(|pk| {
                    if v > pk.get() && v < (usize::MAX >> 1) {
                        pk.set(v)
                    }
                });
            });
        }
        p
    }
}

#[derive(Clone, Copy, Debug, Default)]
pub struct AllocStats {
    /// Peak of (live bytes - live bytes at scope start) on this thread.
    pub peak_extra: usize,
    pub largest_request: usize,
}

/// Measure allocations made by `f` on the current thread.
pub fn alloc_scope<T>(f: impl FnOnce() -> T) -> (T, AllocStats) {
    let base = A_LIVE.with(|c| c.get());
    A_PEAK.with(|c| c.set(base));
    A_LARGEST.with(|c| c.set(0));
    let r = f();
    let peak = A_PEAK.with(|c| c.get());
    let largest = A_LARGEST.with(|c| c.get());
    (
        r,
        AllocStats {
            peak_extra: peak.saturating_sub(base),
            largest_request: largest,
        },
    )
}

// ---------------------------------------------------------------------------------------------
// Shard context and results
// ---------------------------------------------------------------------------------------------

#[derive(Clone, Copy, Debug, PartialEq, Eq)]
pub enum Tier {
    Quick,
    Thorough,
}

pub struct Violation {
    pub signature: String,
    pub what: String,
    pub witness: Value,
    pub count: u64,
}

pub struct Ctx {
    pub prop: String,
    pub tier: Tier,
    pub seed: u64,
    pub shard: usize,
    pub nshards: usize,
    pub trace: bool,
    /// Optional scale override (percent) for experiments; 100 = nominal.
    pub scale: u64,
    pub evaluations: u64,
    pub distinct: BTreeSet<u64>,
    pub samples: Vec<Value>,
    pub max_samples: usize,
    pub counters: BTreeMap<String, u64>,
    pub maxima: BTreeMap<String, u64>,
    pub sets: BTreeMap<String, BTreeSet<String>>,
    pub violations: BTreeMap<String, Violation>,
    pub notes: Vec<String>,
    pub inconclusive: Vec<String>,
    pub exhaustive: Option<bool>,
}

impl Ctx {
    pub fn new(prop: &str, tier: Tier, seed: u64, shard: usize, nshards: usize) -> Self {
        Ctx {
            prop: prop.to_string(),
            tier,
            seed,
            shard,
            nshards,
            trace: false,
            scale: 100,
            evaluations: 0,
            distinct: BTreeSet::new(),
            samples: Vec::new(),
            max_samples: 6,
            counters: BTreeMap::new(),
            maxima: BTreeMap::new(),
            sets: BTreeMap::new(),
            violations: BTreeMap::new(),
            notes: Vec::new(),
            inconclusive: Vec::new(),
            exhaustive: None,
        }
    }

    pub fn quick(&self) -> bool {
        self.tier == Tier::Quick
    }

    /// Pick a budget by tier, scaled.
    pub fn budget(&self, quick: u64, thorough: u64) -> u64 {
        let b = if self.quick() { quick } else { thorough };
        (b * self.scale / 100).max(1)
    }

    /// Does global work item `i` belong to this shard?
    pub fn mine(&self, i: u64) -> bool {
        (i % self.nshards as u64) as usize == self.shard
    }

    /// RNG stream for a labelled sub-workload of this shard.
    pub fn rng(&self, label: &str) -> Rng64 {
        Rng64::derive(
            self.seed,
            &[self.prop.as_str(), label],
            self.shard as u64 * 1_000_003 + self.nshards as u64,
        )
    }

    /// RNG stream that is the same on all shards (for workloads partitioned with `mine`).
    pub fn rng_global(&self, label: &str) -> Rng64 {
        Rng64::derive(self.seed, &[self.prop.as_str(), label], 0)
    }

    pub fn eval(&mut self) {
        self.evaluations += 1;
    }

    pub fn evals(&mut self, n: u64) {
        self.evaluations += n;
    }

    pub fn nontrivial(&mut self, d: u64) {
        // Bounded memory: keep at most 2M digests per shard (counted conservatively).
        if self.distinct.len() < 2_000_000 {
            self.distinct.insert(d);
        }
    }

    pub fn count(&mut self, key: &str) {
        *self.counters.entry(key.to_string()).or_insert(0) += 1;
    }

    pub fn count_n(&mut self, key: &str, n: u64) {
        *self.counters.entry(key.to_string()).or_insert(0) += n;
    }

    pub fn max(&mut self, key: &str, v: u64) {
        let e = self.maxima.entry(key.to_string()).or_insert(0);
        if v > *e {
            *e = v;
        }
    }

    pub fn set_insert(&mut self, key: &str, v: impl Into<String>) {
        let s = self.sets.entry(key.to_string()).or_default();
        if s.len() < 4096 {
            s.insert(v.into());
        }
    }

    pub fn sample(&mut self, v: impl FnOnce() -> Value) {
        if self.samples.len() < self.max_samples {
            self.samples.push(v());
        }
    }

    pub fn note(&mut self, s: impl Into<String>) {
        let s = s.into();
        if !self.notes.contains(&s) && self.notes.len() < 64 {
            self.notes.push(s);
        }
    }

    pub fn inconclusive(&mut self, s: impl Into<String>) {
        self.inconclusive.push(s.into());
    }

    /// Record a violation. `signature` identifies the failing call site / argument class and is
    /// what known_findings.json is keyed on; only the first witness per signature is kept.
    pub fn violation(&mut self, signature: impl Into<String>, what: impl Into<String>, witness: Value) {
        let signature = format!("{}|{}", self.prop, signature.into());
        if self.trace {
            eprintln!("VIOLATION-EVENT {signature}");
        }
        let e = self.violations.entry(signature.clone()).or_insert(Violation {
            signature,
            what: what.into(),
            witness,
            count: 0,
        });
        e.count += 1;
    }

    /// An artefact that must be rejected was accepted ONCE but not again under fresh independent keys /
    /// randomness. In a field of >= 64 bits a genuine soundness fluke has probability below 2^-40 per
    /// attempt, so what was observed is an acceptance that depends on something other than validity: the
    /// particular key, or state left behind by earlier calls (a memo / cache keyed too narrowly). That is a
    /// violation of the "rejected except with negligible probability" clause. In smaller fields (Prio2's
    /// 32-bit field) a single acceptance is a plausible fluke and is only counted.
    pub fn sporadic(&mut self, field_bits: u32, signature: impl Into<String>, witness: Value) {
        self.count("soundness_flukes");
        if field_bits >= 64 {
            self.violation(format!("{}|accepted-once-not-reproducible", signature.into()),
                "an artefact that must be rejected was accepted, but not again under fresh independent keys: in a field of >= 64 bits a soundness fluke (< 2^-40) does not explain it; \
                 acceptance depends on the particular key or on state left by earlier calls", witness);
        }
    }

    pub fn trace(&self, s: impl FnOnce() -> String) {
        if self.trace {
            eprintln!("TRACE[{}:{}] {}", self.prop, self.shard, s());
        }
    }

    pub fn to_json(&self, wall_s: f64) -> Value {
        let mut counters = Map::new();
        for (k, v) in &self.counters {
            counters.insert(k.clone(), json!(v));
        }
        let mut maxima = Map::new();
        for (k, v) in &self.maxima {
            maxima.insert(k.clone(), json!(v));
        }
        let mut sets = Map::new();
        for (k, v) in &self.sets {
            sets.insert(k.clone(), json!(v.iter().collect::<Vec<_>>()));
        }
        let violations: Vec<Value> = self
            .violations
            .values()
            .map(|v| {
                json!({
                    "signature": v.signature,
                    "what": v.what,
                    "witness": v.witness,
                    "count": v.count,
                })
            })
            .collect();
        json!({
            "property": self.prop,
            "tier": if self.quick() {"quick"} else {"thorough"},
            "seed": self.seed,
            "shard": self.shard,
            "nshards": self.nshards,
            "evaluations": self.evaluations,
            "distinct": self.distinct.iter().collect::<Vec<_>>(),
            "samples": self.samples,
            "counters": counters,
            "maxima": maxima,
            "sets": sets,
            "violations": violations,
            "notes": self.notes,
            "inconclusive": self.inconclusive,
            "exhaustive": self.exhaustive,
            "wall_s": wall_s,
        })
    }
}

pub struct Args {
    pub prop: String,
    pub tier: Tier,
    pub seed: u64,
    pub shard: usize,
    pub nshards: usize,
    pub out: Option<PathBuf>,
    pub trace: bool,
    pub scale: u64,
    pub extra: Vec<String>,
}

pub fn parse_args() -> Args {
    let mut it = std::env::args().skip(1);
    let prop = it.next().unwrap_or_else(|| usage());
    let mut a = Args {
        prop,
        tier: Tier::Quick,
        seed: 1,
        shard: 0,
        nshards: 1,
        out: None,
        trace: false,
        scale: 100,
        extra: vec![],
    };
    while let Some(arg) = it.next() {
        match arg.as_str() {
            "--tier" => {
                a.tier = match it.next().as_deref() {
                    Some("quick") => Tier::Quick,
                    Some("thorough") => Tier::Thorough,
                    _ => usage(),
                }
            }
            "--seed" => a.seed = it.next().and_then(|s| s.parse().ok()).unwrap_or_else(|| usage()),
            "--shard" => {
                let s = it.next().unwrap_or_else(|| usage());
                let (i, n) = s.split_once('/').unwrap_or_else(|| usage());
                a.shard = i.parse().unwrap_or_else(|_| usage());
                a.nshards = n.parse().unwrap_or_else(|_| usage());
                assert!(a.shard < a.nshards);
            }
            "--out" => a.out = Some(PathBuf::from(it.next().unwrap_or_else(|| usage()))),
            "--scale" => a.scale = it.next().and_then(|s| s.parse().ok()).unwrap_or_else(|| usage()),
            "--trace" => a.trace = true,
            other => a.extra.push(other.to_string()),
        }
    }
    a
}

fn usage() -> ! {
    eprintln!(
        "usage: pv <property> [--tier quick|thorough] [--seed N] [--shard i/N] [--out FILE] [--trace] [--scale PCT]"
    );
    std::process::exit(3)
}

pub fn hex(b: &[u8]) -> String {
    let mut s = String::with_capacity(b.len() * 2);
    for x in b {
        s.push_str(&format!("{x:02x}"));
    }
    s
}

/// Hex, truncated for witnesses of large messages.
pub fn hex_trunc(b: &[u8], max: usize) -> String {
    if b.len() <= max {
        hex(b)
    } else {
        format!("{}..(+{} bytes)", hex(&b[..max]), b.len() - max)
    }
}

pub fn unhex(s: &str) -> Vec<u8> {
    (0..s.len() / 2)
        .map(|i| u8::from_str_radix(&s[2 * i..2 * i + 2], 16).unwrap())
        .collect()
}

/// Number of inputs/prefixes handed to the library with a storage offset other than zero.
pub static UNALIGNED_INPUTS_MADE: std::sync::atomic::AtomicU64 = std::sync::atomic::AtomicU64::new(0);

/// The bit string as an `IdpfInput`. About one value in three (decided by the bits themselves, so the
/// choice is reproducible) is built through the public `From<BitBox>` from a bit slice that does NOT start
/// at bit 0 of its first storage word (junk bits in front): equal, equally ordered and equally encoded
/// inputs whose backing storage differs. Every Poplar1/IDPF driver that goes through here therefore mixes
/// storage offsets among inputs, candidate prefixes and cache keys; results must not depend on it.
pub fn to_input(b: &[bool]) -> prio::idpf::IdpfInput {
    use prio::idpf::IdpfInput;
    use bitvec::prelude::*;
    let mut h: u64 = 0xcbf2_9ce4_8422_2325 ^ b.len() as u64;
    for (i, x) in b.iter().enumerate().take(256) {
        if *x {
            h ^= (i as u64 + 1).wrapping_mul(0x9E37_79B9_7F4A_7C15);
            h = h.rotate_left(7).wrapping_mul(0x1000_0000_01b3);
        }
    }
    h ^= h >> 29;
    if h % 3 != 0 {
        return IdpfInput::from_bools(b);
    }
    // Mostly small offsets: a key that is not re-aligned collides with an aligned one only when one string is
    // the other shifted by the offset with zeros filling the gap (0^d x versus x 0^d), which random candidate
    // sets contain for d = 1..3 but practically never for d >= 8.
    const OFFS: [usize; 16] = [1, 1, 1, 1, 2, 2, 2, 3, 3, 5, 8, 31, 33, 63, 64, 65];
    let off = OFFS[((h >> 8) % 16) as usize];
    let mut bv: BitVec<usize, Lsb0> = BitVec::with_capacity(off + b.len());
    for i in 0..off {
        bv.push((h >> (16 + i % 40)) & 1 == 1);
    }
    for x in b {
        bv.push(*x);
    }
    UNALIGNED_INPUTS_MADE.fetch_add(1, std::sync::atomic::Ordering::Relaxed);
    IdpfInput::from(BitBox::from_bitslice(&bv[off..]))
}

