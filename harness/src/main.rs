//! `pv`: one binary, one sub-command ("driver") per property. Each invocation runs one shard of
//! one property's workload and writes a JSON result; `/verif/check` merges shards, matches known
//! findings and writes the evidence file.

mod common;

mod proto;
mod zoo;

mod c01;
mod c02;
mod p3forge;
mod c03;
mod c04;
mod c05;
mod poplar_util;
mod c06;
mod c07;
mod c08;
mod c09;
mod codec_registry;
mod c10;
mod c11;
mod c12;
mod spy_vdaf;
mod c13;
mod c14;
mod c15;
mod c15_explore;
mod c15_model;
mod c15_noise;
mod c15_real;
mod c16;
mod c17;
mod c18;
mod c19;
mod c20;

use common::*;
use std::time::Instant;

#[global_allocator]
static GLOBAL: MonitorAlloc = MonitorAlloc;

fn main() {
    let args = parse_args();
    install_panic_hook();
    let mut ctx = Ctx::new(&args.prop, args.tier, args.seed, args.shard, args.nshards);
    ctx.trace = args.trace;
    ctx.scale = args.scale;
    let t0 = Instant::now();
    let prop = args.prop.clone();
    // A panic escaping a driver is a harness error, never a verdict by itself: the shard is marked
    // inconclusive, but everything the monitors recorded before it (incl. violations) is kept.
    let r = catch(|| dispatch(&prop, &mut ctx));
    let wall = t0.elapsed().as_secs_f64();
    if let Err(pi) = r {
        eprintln!("HARNESS-ERROR: driver {} panicked outside a monitored call: {} at {}", args.prop, pi.message, pi.location);
        ctx.inconclusive(format!("driver panicked outside a monitored call: {} at {}", pi.message, pi.location));
    }
    let out = ctx.to_json(wall);
    let text = serde_json::to_string(&out).unwrap();
    match args.out {
        Some(p) => std::fs::write(p, text).unwrap(),
        None => println!("{text}"),
    }
}

fn dispatch(prop: &str, ctx: &mut Ctx) {
    let ctx = &mut *ctx;
    match prop {
        "C01" => c01::run(ctx),
        "C02" => c02::run(ctx),
        "C03" => c03::run(ctx),
        "C04" => c04::run(ctx),
        "C05" => c05::run(ctx),
        "C06" => c06::run(ctx),
        "C07" => c07::run(ctx),
        "C08" => c08::run(ctx),
        "C09" => c09::run(ctx),
        "C10" => c10::run(ctx),
        "C11" => c11::run(ctx),
        "C12" => c12::run(ctx),
        "C13" => c13::run(ctx),
        "C14" => c14::run(ctx),
        "C15" => c15::run(ctx),
        "C16" => c16::run(ctx),
        "C17" => c17::run(ctx),
        "C18" => c18::run(ctx),
        "C19" => c19::run(ctx),
        "C20" => c20::run(ctx),
        other => {
            eprintln!("unknown property {other}");
            std::process::exit(3)
        }
    }
}
