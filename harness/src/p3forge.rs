//! A harness-side re-implementation of Prio3 *sharing* around the public `Flp::prove`, so that a
//! report can be produced for an ARBITRARY (possibly invalid) encoded input with a proof computed
//! honestly over that input. It uses only public API (`Xof`, `IntoFieldVec`, `Type::prove`) and is
//! itself monitored: on valid inputs it must reproduce `shard_with_random` byte for byte.

use crate::zoo::*;
use prio::codec::Encode;
use prio::flp::Type;
use prio::vdaf::xof::{IntoFieldVec, Xof};

const VERSION: u8 = 18;
pub const DST_MEASUREMENT_SHARE: u16 = 1;
pub const DST_PROOF_SHARE: u16 = 2;
pub const DST_JOINT_RANDOMNESS: u16 = 3;
pub const DST_PROVE_RANDOMNESS: u16 = 4;
#[allow(dead_code)]
pub const DST_QUERY_RANDOMNESS: u16 = 5;
pub const DST_JOINT_RAND_SEED: u16 = 6;
pub const DST_JOINT_RAND_PART: u16 = 7;

pub fn dst(alg_id: u32, usage: u16) -> [u8; 8] {
    let mut d = [0u8; 8];
    d[0] = VERSION;
    d[1] = 0;
    d[2..6].copy_from_slice(&alg_id.to_be_bytes());
    d[6..8].copy_from_slice(&usage.to_be_bytes());
    d
}

pub struct Forged {
    pub public_share: Vec<u8>,
    pub input_shares: Vec<Vec<u8>>,
}

fn enc_vec<F: ZField>(v: &[F], out: &mut Vec<u8>) {
    for x in v {
        x.encode(out).unwrap();
    }
}

/// Share `input` (any vector of `typ.input_len()` field elements) for `cfg`, with the randomness
/// tape laid out exactly as `Prio3::shard_with_random` expects.
pub fn forge<T: Kinded, P: Xof<32>>(
    typ: &T,
    cfg: &VdafCfg,
    ctx: &[u8],
    nonce: &[u8; 16],
    input: &[T::Field],
    random: &[u8],
) -> Result<Forged, String>
where
    T::Field: ZField,
{
    forge_ex::<T, P>(typ, cfg, ctx, nonce, input, random, None)
}

/// Joint randomness of all proofs from the joint-randomness parts, as specified.
pub fn joint_rands_from_parts<T: Kinded, P: Xof<32>>(typ: &T, cfg: &VdafCfg, ctx: &[u8], parts: &[[u8; 32]]) -> Vec<T::Field>
where
    T::Field: ZField,
{
    let alg = cfg.alg_id;
    let mut x = P::init(&[0u8; 32], &[&dst(alg, DST_JOINT_RAND_SEED), ctx]);
    for p in parts {
        x.update(p);
    }
    let jr_seed = x.into_seed();
    P::seed_stream(jr_seed.as_ref(), &[&dst(alg, DST_JOINT_RANDOMNESS), ctx], &[&[cfg.proofs]]).into_field_vec(typ.joint_rand_len() * cfg.proofs as usize)
}

/// As `forge`; with `parts_override` the given joint-randomness parts are published and used for the
/// proof instead of the ones the specification derives from the shares (a malicious client that
/// obtained the parts some other way, e.g. by running the aggregators' code on its shares).
pub fn forge_ex<T: Kinded, P: Xof<32>>(
    typ: &T,
    cfg: &VdafCfg,
    ctx: &[u8],
    nonce: &[u8; 16],
    input: &[T::Field],
    random: &[u8],
    parts_override: Option<&[[u8; 32]]>,
) -> Result<Forged, String>
where
    T::Field: ZField,
{
    let n = cfg.aggs as usize;
    let np = cfg.proofs as usize;
    let jr = typ.joint_rand_len() > 0;
    let need = if jr { 2 * n * 32 } else { n * 32 };
    if random.len() != need {
        return Err("bad tape length".into());
    }
    let mut seeds = random.chunks_exact(32).map(|c| <[u8; 32]>::try_from(c).unwrap());
    let alg = cfg.alg_id;
    let mut leader_meas = input.to_vec();
    let mut helper_seeds: Vec<[u8; 32]> = vec![];
    let mut helper_blinds: Vec<[u8; 32]> = vec![];
    let mut parts: Vec<[u8; 32]> = vec![[0u8; 32]; if jr { n } else { 0 }];
    for agg_id in 1..n {
        let seed = seeds.next().unwrap();
        let share: Vec<T::Field> =
            P::seed_stream(&seed, &[&dst(alg, DST_MEASUREMENT_SHARE), ctx], &[&[agg_id as u8]]).into_field_vec(typ.input_len());
        for (l, s) in leader_meas.iter_mut().zip(&share) {
            *l -= *s;
        }
        if jr {
            let blind = seeds.next().unwrap();
            let mut x = P::init(&blind, &[&dst(alg, DST_JOINT_RAND_PART), ctx]);
            x.update(&[agg_id as u8]);
            x.update(nonce);
            let mut buf = vec![];
            enc_vec(&share, &mut buf);
            x.update(&buf);
            parts[agg_id] = *x.into_seed().as_ref();
            helper_blinds.push(blind);
        }
        helper_seeds.push(seed);
    }
    let mut leader_blind = None;
    if jr {
        let blind = seeds.next().unwrap();
        let mut x = P::init(&blind, &[&dst(alg, DST_JOINT_RAND_PART), ctx]);
        x.update(&[0u8]);
        x.update(nonce);
        let mut buf = vec![];
        enc_vec(&leader_meas, &mut buf);
        x.update(&buf);
        parts[0] = *x.into_seed().as_ref();
        leader_blind = Some(blind);
    }
    if let (true, Some(o)) = (jr, parts_override) {
        if o.len() != n {
            return Err("bad parts override".into());
        }
        parts = o.to_vec();
    }
    let joint_rands: Vec<T::Field> = if jr { joint_rands_from_parts::<T, P>(typ, cfg, ctx, &parts) } else { vec![] };
    let prove_seed = seeds.next().unwrap();
    let prove_rands: Vec<T::Field> =
        P::seed_stream(&prove_seed, &[&dst(alg, DST_PROVE_RANDOMNESS), ctx], &[&[cfg.proofs]]).into_field_vec(typ.prove_rand_len() * np);
    let mut leader_proofs: Vec<T::Field> = vec![];
    for k in 0..np {
        let pr = &prove_rands[k * typ.prove_rand_len()..(k + 1) * typ.prove_rand_len()];
        let jrk = &joint_rands[k * typ.joint_rand_len()..(k + 1) * typ.joint_rand_len()];
        let mut proof = typ.prove(input, pr, jrk).map_err(|e| format!("prove: {e}"))?;
        leader_proofs.append(&mut proof);
    }
    for (j, seed) in helper_seeds.iter().enumerate() {
        let agg_id = (j + 1) as u8;
        let share: Vec<T::Field> =
            P::seed_stream(seed, &[&dst(alg, DST_PROOF_SHARE), ctx], &[&[cfg.proofs, agg_id]]).into_field_vec(typ.proof_len() * np);
        for (l, s) in leader_proofs.iter_mut().zip(&share) {
            *l -= *s;
        }
    }
    // Wire forms.
    let mut public_share = vec![];
    for p in &parts {
        public_share.extend_from_slice(p);
    }
    let mut input_shares = vec![];
    let mut leader = vec![];
    enc_vec(&leader_meas, &mut leader);
    enc_vec(&leader_proofs, &mut leader);
    if let Some(b) = leader_blind {
        leader.extend_from_slice(&b);
    }
    input_shares.push(leader);
    for (j, seed) in helper_seeds.iter().enumerate() {
        let mut h = seed.to_vec();
        if jr {
            h.extend_from_slice(&helper_blinds[j]);
        }
        input_shares.push(h);
    }
    Ok(Forged { public_share, input_shares })
}
