//! Shared helpers for the Poplar1 drivers (C03, C04): plain models of inputs/prefixes/counts,
//! integer models of the two Poplar1 fields, a spec-level model of the seed-derived field streams
//! (continuous XOF byte stream + rejection sampling), a re-implementation of the correlated-
//! randomness part of `Poplar1::shard_with_random` (cross-checked against the real one by C04),
//! wire-layout builders/parsers for `Poplar1InputShare`, public shares and field vectors.
//!
//! Everything here is written against the PUBLIC API of `prio` only.

#![allow(dead_code)]

use crate::common::*;
use num_bigint::BigUint;
use num_traits::{One, Zero};
use prio::idpf::IdpfInput;
use prio::vdaf::poplar1::Poplar1AggregationParam;
use prio::vdaf::xof::{SeedStreamTurboShake128, Xof, XofTurboShake128};
use rand::Rng;

pub const P64: u64 = 0xffff_ffff_0000_0001;
/// draft-irtf-cfrg-vdaf-18
pub const VDAF_VERSION: u8 = 18;
pub const POPLAR1_ALG_ID: u32 = 6;
pub const USAGE_SHARD_RAND: u16 = 1;
pub const USAGE_CORR_INNER: u16 = 2;
pub const USAGE_CORR_LEAF: u16 = 3;
pub const USAGE_VERIFY_RAND: u16 = 4;

// ---------------------------------------------------------------------------------------------
// Field models
// ---------------------------------------------------------------------------------------------

#[inline]
pub fn add64(a: u64, b: u64) -> u64 {
    ((a as u128 + b as u128) % P64 as u128) as u64
}
#[inline]
pub fn sub64(a: u64, b: u64) -> u64 {
    ((a as u128 + P64 as u128 - b as u128) % P64 as u128) as u64
}
#[inline]
pub fn mul64(a: u64, b: u64) -> u64 {
    ((a as u128 * b as u128) % P64 as u128) as u64
}
#[inline]
pub fn neg64(a: u64) -> u64 {
    sub64(0, a)
}

pub fn p255() -> BigUint {
    (BigUint::one() << 255u32) - BigUint::from(19u32)
}

/// Integer model of a prime field (operands always reduced). `M255::new()` is Field255,
/// `M255::f64()` is Field64.
#[derive(Clone)]
pub struct M255 {
    pub p: BigUint,
}

pub type Fp = M255;

impl M255 {
    pub fn new() -> Self {
        M255 { p: p255() }
    }
    pub fn f64() -> Self {
        M255 { p: BigUint::from(P64) }
    }
    pub fn is_f64(&self) -> bool {
        self.p == BigUint::from(P64)
    }
    pub fn elem_size(&self) -> usize {
        if self.is_f64() {
            8
        } else {
            32
        }
    }
    pub fn add(&self, a: &BigUint, b: &BigUint) -> BigUint {
        (a + b) % &self.p
    }
    pub fn sub(&self, a: &BigUint, b: &BigUint) -> BigUint {
        (a + &self.p - b) % &self.p
    }
    pub fn mul(&self, a: &BigUint, b: &BigUint) -> BigUint {
        (a * b) % &self.p
    }
    pub fn neg(&self, a: &BigUint) -> BigUint {
        self.sub(&BigUint::zero(), a)
    }
    pub fn rand(&self, rng: &mut Rng64) -> BigUint {
        BigUint::from_bytes_le(&rng.bytes(40)) % &self.p
    }
    pub fn rand_nonzero(&self, rng: &mut Rng64) -> BigUint {
        loop {
            let x = self.rand(rng);
            if !x.is_zero() {
                return x;
            }
        }
    }
    pub fn u(&self, x: u64) -> BigUint {
        BigUint::from(x) % &self.p
    }
    /// Little-endian canonical encoding.
    pub fn enc(&self, x: &BigUint) -> Vec<u8> {
        let mut out = vec![0u8; self.elem_size()];
        let b = x.to_bytes_le();
        assert!(b.len() <= out.len());
        out[..b.len()].copy_from_slice(&b);
        out
    }
}

pub fn big_to_u64(x: &BigUint) -> u64 {
    let d = x.to_u64_digits();
    match d.len() {
        0 => 0,
        1 => d[0],
        _ => panic!("value does not fit u64"),
    }
}

pub fn le32(x: &BigUint) -> [u8; 32] {
    let mut out = [0u8; 32];
    let b = x.to_bytes_le();
    assert!(b.len() <= 32);
    out[..b.len()].copy_from_slice(&b);
    out
}

// ---------------------------------------------------------------------------------------------
// Seed-derived field streams (spec-level: the XOF output is one continuous byte stream that is
// consumed ENCODED_SIZE bytes at a time; a chunk that does not encode an integer < p is skipped;
// for the 255-bit field the top bit of the chunk is cleared first).
// ---------------------------------------------------------------------------------------------

pub struct FieldStream {
    s: SeedStreamTurboShake128,
    pub rejections: u64,
}

pub fn poplar1_dst(usage: u16) -> [u8; 8] {
    let mut dst = [0u8; 8];
    dst[0] = VDAF_VERSION;
    dst[1] = 0;
    dst[2..6].copy_from_slice(&POPLAR1_ALG_ID.to_be_bytes());
    dst[6..8].copy_from_slice(&usage.to_be_bytes());
    dst
}

impl FieldStream {
    pub fn new(seed: &[u8; 32], usage: u16, ctx: &[u8], binder: &[&[u8]]) -> Self {
        let dst = poplar1_dst(usage);
        let mut x = XofTurboShake128::init(seed, &[&dst, ctx]);
        for b in binder {
            x.update(b);
        }
        FieldStream { s: x.into_seed_stream(), rejections: 0 }
    }
    pub fn f64(&mut self) -> u64 {
        loop {
            let mut b = [0u8; 8];
            self.s.fill_bytes(&mut b);
            let v = u64::from_le_bytes(b);
            if v < P64 {
                return v;
            }
            self.rejections += 1;
        }
    }
    pub fn f255(&mut self, p: &BigUint) -> BigUint {
        loop {
            let mut b = [0u8; 32];
            self.s.fill_bytes(&mut b);
            b[31] &= 0x7f;
            let v = BigUint::from_bytes_le(&b);
            if &v < p {
                return v;
            }
            self.rejections += 1;
        }
    }
}

// ---------------------------------------------------------------------------------------------
// Correlated randomness (what an honest client computes, and what the aggregators re-derive)
// ---------------------------------------------------------------------------------------------

/// Per-aggregator shares of the offsets (a, b, c) for every inner level and for the leaf level,
/// as derived by aggregator `agg_id` from its correlated-randomness seed.
pub struct AbcShares {
    pub inner: Vec<[u64; 3]>,
    pub leaf: [BigUint; 3],
}

pub fn derive_abc(seed: &[u8; 32], agg_id: u8, ctx: &[u8], nonce: &[u8; 16], bits: usize, m: &M255) -> AbcShares {
    let mut si = FieldStream::new(seed, USAGE_CORR_INNER, ctx, &[&[agg_id], nonce]);
    let inner = (0..bits - 1).map(|_| [si.f64(), si.f64(), si.f64()]).collect();
    let mut sl = FieldStream::new(seed, USAGE_CORR_LEAF, ctx, &[&[agg_id], nonce]);
    let leaf = [sl.f255(&m.p), sl.f255(&m.p), sl.f255(&m.p)];
    AbcShares { inner, leaf }
}

/// (a, b, c) sums for every level.
pub struct Abc {
    pub inner: Vec<[u64; 3]>,
    pub leaf: [BigUint; 3],
}

pub fn sum_abc(x: &AbcShares, y: &AbcShares, m: &M255) -> Abc {
    let inner = x
        .inner
        .iter()
        .zip(y.inner.iter())
        .map(|(p, q)| [add64(p[0], q[0]), add64(p[1], q[1]), add64(p[2], q[2])])
        .collect();
    let leaf = [m.add(&x.leaf[0], &y.leaf[0]), m.add(&x.leaf[1], &y.leaf[1]), m.add(&x.leaf[2], &y.leaf[2])];
    Abc { inner, leaf }
}

/// The pair (A, B) that makes the sketch of a point function with value (1, k) verify:
/// A = -2a + k, B = a^2 + b - a k + c.
pub fn consistent_ab64(abc: &[u64; 3], k: u64) -> [u64; 2] {
    let [a, b, c] = *abc;
    let big_a = add64(neg64(mul64(2, a)), k);
    let big_b = add64(sub64(add64(mul64(a, a), b), mul64(a, k)), c);
    [big_a, big_b]
}

pub fn consistent_ab255(m: &M255, abc: &[BigUint; 3], k: &BigUint) -> [BigUint; 2] {
    let [a, b, c] = abc;
    let two = BigUint::from(2u32);
    let big_a = m.add(&m.neg(&m.mul(&two, a)), k);
    let big_b = m.add(&m.sub(&m.add(&m.mul(a, a), b), &m.mul(a, k)), c);
    [big_a, big_b]
}

/// Everything `shard_with_random` derives besides the IDPF: authenticators and the two
/// aggregators' (A, B) shares per level.
pub struct HonestCorr {
    pub auth_inner: Vec<u64>,
    pub auth_leaf: BigUint,
    /// [aggregator][level] -> (A share, B share)
    pub corr_inner: [Vec<[u64; 2]>; 2],
    pub corr_leaf: [[BigUint; 2]; 2],
    pub rejections: u64,
}

/// Re-implementation of the correlated-randomness part of `Poplar1::shard_with_random`
/// (`poplar_random` = corr seed of aggregator 0, corr seed of aggregator 1, sharding seed).
pub fn model_honest_corr(bits: usize, ctx: &[u8], nonce: &[u8; 16], poplar_random: &[[u8; 32]; 3], m: &M255) -> HonestCorr {
    let mut sh = FieldStream::new(&poplar_random[2], USAGE_SHARD_RAND, ctx, &[nonce]);
    let auth_inner: Vec<u64> = (0..bits - 1).map(|_| sh.f64()).collect();
    let auth_leaf = sh.f255(&m.p);
    let s0 = derive_abc(&poplar_random[0], 0, ctx, nonce, bits, m);
    let s1 = derive_abc(&poplar_random[1], 1, ctx, nonce, bits, m);
    let abc = sum_abc(&s0, &s1, m);
    let mut c0 = Vec::with_capacity(bits - 1);
    let mut c1 = Vec::with_capacity(bits - 1);
    for l in 0..bits - 1 {
        let ab = consistent_ab64(&abc.inner[l], auth_inner[l]);
        let h = [sh.f64(), sh.f64()];
        c0.push([sub64(ab[0], h[0]), sub64(ab[1], h[1])]);
        c1.push(h);
    }
    let ab = consistent_ab255(m, &abc.leaf, &auth_leaf);
    let h = [sh.f255(&m.p), sh.f255(&m.p)];
    let l0 = [m.sub(&ab[0], &h[0]), m.sub(&ab[1], &h[1])];
    HonestCorr { auth_inner, auth_leaf, corr_inner: [c0, c1], corr_leaf: [l0, h], rejections: sh.rejections }
}

// ---------------------------------------------------------------------------------------------
// Wire layouts
// ---------------------------------------------------------------------------------------------

/// `Poplar1InputShare<32>`: idpf key (16) | corr seed (32) | (bits-1) x (A, B) Field64 LE |
/// (A, B) Field255 LE.
pub fn encode_input_share(idpf_key: &[u8; 16], corr_seed: &[u8; 32], inner: &[[u64; 2]], leaf: &[BigUint; 2]) -> Vec<u8> {
    let mut out = Vec::with_capacity(48 + inner.len() * 16 + 64);
    out.extend_from_slice(idpf_key);
    out.extend_from_slice(corr_seed);
    for ab in inner {
        out.extend_from_slice(&ab[0].to_le_bytes());
        out.extend_from_slice(&ab[1].to_le_bytes());
    }
    out.extend_from_slice(&le32(&leaf[0]));
    out.extend_from_slice(&le32(&leaf[1]));
    out
}

pub fn input_share_len(bits: usize) -> usize {
    16 + 32 + (bits - 1) * 16 + 64
}

/// Byte regions of an encoded input share: (name, start, end).
pub fn input_share_regions(bits: usize) -> Vec<(&'static str, usize, usize)> {
    let mut v = vec![("idpf_key", 0, 16), ("corr_seed", 16, 48)];
    let inner_end = 48 + (bits - 1) * 16;
    if bits > 1 {
        v.push(("corr_inner", 48, inner_end));
    }
    v.push(("corr_leaf", inner_end, inner_end + 64));
    v
}

/// Layout of an encoded public share: packed control bits | seeds | inner payloads | leaf payload.
#[derive(Clone, Copy, Debug)]
pub struct PublicShareLayout {
    pub bits: usize,
}

impl PublicShareLayout {
    pub fn ctrl_len(&self) -> usize {
        self.bits.div_ceil(4)
    }
    pub fn seeds_start(&self) -> usize {
        self.ctrl_len()
    }
    pub fn seed_range(&self, level: usize) -> (usize, usize) {
        let s = self.seeds_start() + 16 * level;
        (s, s + 16)
    }
    pub fn inner_start(&self) -> usize {
        self.seeds_start() + 16 * self.bits
    }
    pub fn inner_payload_range(&self, level: usize) -> (usize, usize) {
        let s = self.inner_start() + 16 * level;
        (s, s + 16)
    }
    pub fn leaf_start(&self) -> usize {
        self.inner_start() + 16 * (self.bits - 1)
    }
    pub fn total(&self) -> usize {
        self.leaf_start() + 64
    }
    /// (byte index, bit mask) of control bit `which` (0 = left, 1 = right) of `level`.
    pub fn ctrl_bit(&self, level: usize, which: usize) -> (usize, u8) {
        let idx = 2 * level + which;
        (idx / 8, 1u8 << (idx % 8))
    }
    /// Which level (and part) does byte offset `off` belong to?
    pub fn classify(&self, off: usize) -> (&'static str, usize) {
        if off < self.seeds_start() {
            ("ctrl", off * 4)
        } else if off < self.inner_start() {
            ("seed", (off - self.seeds_start()) / 16)
        } else if off < self.leaf_start() {
            ("payload", (off - self.inner_start()) / 16)
        } else {
            ("payload", self.bits - 1)
        }
    }
}

/// Decode a `Poplar1FieldVec` (output/aggregate share) into integers.
pub enum FieldVecInts {
    Inner(Vec<u64>),
    Leaf(Vec<BigUint>),
}

pub fn parse_field_vec(bytes: &[u8], leaf: bool, n: usize) -> Option<FieldVecInts> {
    if leaf {
        if bytes.len() != 32 * n {
            return None;
        }
        Some(FieldVecInts::Leaf(bytes.chunks(32).map(BigUint::from_bytes_le).collect()))
    } else {
        if bytes.len() != 8 * n {
            return None;
        }
        Some(FieldVecInts::Inner(bytes.chunks(8).map(|c| u64::from_le_bytes(c.try_into().unwrap())).collect()))
    }
}

/// Sum of the two aggregators' output shares, as (small) integers where possible:
/// `Some(v)` if the entry is < 2^64, `None` otherwise.
pub fn sum_output_shares(a: &[u8], b: &[u8], leaf: bool, n: usize, m: &M255) -> Option<Vec<Option<u64>>> {
    match (parse_field_vec(a, leaf, n)?, parse_field_vec(b, leaf, n)?) {
        (FieldVecInts::Inner(x), FieldVecInts::Inner(y)) => {
            if x.iter().chain(y.iter()).any(|v| *v >= P64) {
                return None;
            }
            Some(x.iter().zip(y.iter()).map(|(p, q)| Some(add64(*p, *q))).collect())
        }
        (FieldVecInts::Leaf(x), FieldVecInts::Leaf(y)) => {
            if x.iter().chain(y.iter()).any(|v| v >= &m.p) {
                return None;
            }
            Some(
                x.iter()
                    .zip(y.iter())
                    .map(|(p, q)| {
                        let s = m.add(p, q);
                        let d = s.to_u64_digits();
                        match d.len() {
                            0 => Some(0),
                            1 => Some(d[0]),
                            _ => None,
                        }
                    })
                    .collect(),
            )
        }
        _ => None,
    }
}

/// Is the vector all-zero, or one-hot with value one?
pub fn zero_or_one_hot(v: &[Option<u64>]) -> bool {
    let mut ones = 0;
    for x in v {
        match x {
            Some(0) => {}
            Some(1) => ones += 1,
            _ => return false,
        }
    }
    ones <= 1
}

// ---------------------------------------------------------------------------------------------
// Plain inputs / prefixes
// ---------------------------------------------------------------------------------------------

pub type Bits = Vec<bool>;

pub use crate::common::{to_input, UNALIGNED_INPUTS_MADE};

pub fn bits_str(b: &[bool]) -> String {
    if b.len() <= 96 {
        b.iter().map(|x| if *x { '1' } else { '0' }).collect()
    } else {
        // packed hex, MSB first, plus length
        let mut bytes = vec![0u8; b.len().div_ceil(8)];
        for (i, x) in b.iter().enumerate() {
            if *x {
                bytes[i / 8] |= 0x80 >> (i % 8);
            }
        }
        format!("len={} msb-first-hex={}", b.len(), hex(&bytes))
    }
}

pub fn is_prefix(p: &[bool], x: &[bool]) -> bool {
    p.len() <= x.len() && x[..p.len()] == *p
}

pub fn prefix_counts(prefixes: &[Bits], inputs: &[Bits]) -> Vec<u64> {
    prefixes.iter().map(|p| inputs.iter().filter(|x| is_prefix(p, x)).count() as u64).collect()
}

pub fn random_bits(rng: &mut Rng64, n: usize) -> Bits {
    let mut v = Vec::with_capacity(n);
    let mut w = 0u64;
    for i in 0..n {
        if i % 64 == 0 {
            w = rng.u64();
        }
        v.push(w & 1 == 1);
        w >>= 1;
    }
    v
}

/// Sort + dedup a candidate set (lexicographic order on equal-length bit strings).
pub fn normalize(mut v: Vec<Bits>) -> Vec<Bits> {
    v.sort();
    v.dedup();
    v
}

pub fn make_param(prefixes: &[Bits]) -> Result<Poplar1AggregationParam, String> {
    let v: Vec<IdpfInput> = prefixes.iter().map(|p| to_input(p)).collect();
    match catch(|| Poplar1AggregationParam::try_from_prefixes(v)) {
        Ok(Ok(p)) => Ok(p),
        Ok(Err(e)) => Err(format!("error: {e}")),
        Err(pi) => Err(format!("panic: {} at {}", pi.message, pi.location)),
    }
}

pub fn prefixes_json(prefixes: &[Bits], max: usize) -> serde_json::Value {
    serde_json::json!({
        "count": prefixes.len(),
        "first": prefixes.iter().take(max).map(|p| bits_str(p)).collect::<Vec<_>>(),
    })
}
