//! Protocol drivers shared by the VDAF properties: a wire interposer (`via_wire`), and a generic
//! report-verification runner in which every message crosses its wire encoding, every call into
//! the library is under the panic monitor, and a tamper hook can rewrite any message in transit.

use crate::common::*;
use prio::codec::{Encode, ParameterizedDecode};
use prio::vdaf::{Aggregatable, Aggregator, Collector, VerifyTransition};

/// Where a message is intercepted by the tamper hook.
#[derive(Clone, Copy, Debug, PartialEq, Eq)]
pub enum Point {
    PublicShare,
    InputShare(usize),
    /// (round, sender)
    VerifierShare(usize, usize),
    /// (round, receiver)
    VerifierMessage(usize, usize),
}

pub type Tamper<'a> = &'a mut dyn FnMut(Point, &mut Vec<u8>);

pub fn no_tamper(_: Point, _: &mut Vec<u8>) {}

#[derive(Debug)]
pub enum Outcome<O> {
    /// Every aggregator reached `Finish`.
    Finished(Vec<O>),
    /// Some stage refused (decode failure or `Err`): stage name and error text.
    Rejected(&'static str, String),
    /// A call panicked.
    Panicked(&'static str, PanicInfo),
    /// Aggregators did not finish in the same round (protocol-shape anomaly).
    Desync(String),
}

impl<O> Outcome<O> {
    pub fn finished(&self) -> bool {
        matches!(self, Outcome::Finished(_))
    }
    pub fn stage(&self) -> String {
        match self {
            Outcome::Finished(_) => "finished".into(),
            Outcome::Rejected(s, _) => format!("rejected@{s}"),
            Outcome::Panicked(s, _) => format!("panicked@{s}"),
            Outcome::Desync(_) => "desync".into(),
        }
    }
}

/// Statistics about wire traffic (for evidence).
#[derive(Default, Clone, Debug)]
pub struct WireStats {
    pub messages: u64,
    pub bytes: u64,
    pub rounds: u64,
}

macro_rules! guard {
    ($stage:expr, $e:expr) => {
        match catch(|| $e) {
            Ok(Ok(v)) => v,
            Ok(Err(e)) => return Outcome::Rejected($stage, e.to_string()),
            Err(p) => return Outcome::Panicked($stage, p),
        }
    };
}

/// Encode `x`, check the advertised length, and return the bytes. A length mismatch or an
/// encoding error is reported through `len_bad`.
pub fn enc<T: Encode>(x: &T, len_bad: &mut Option<String>) -> Vec<u8> {
    match x.get_encoded() {
        Ok(b) => {
            if let Some(l) = x.encoded_len() {
                if l != b.len() {
                    *len_bad = Some(format!("encoded_len()={} but {} bytes produced", l, b.len()));
                }
            }
            b
        }
        Err(e) => {
            *len_bad = Some(format!("encode failed: {e}"));
            vec![]
        }
    }
}

/// Run the verification of one report with every message passed through its wire encoding.
///
/// `agg_ids[i]` is the aggregator id under which input share `i` is processed (normally `i`),
/// `nonces[i]`, `keys[i]`, `ctxs[i]` the values that aggregator uses (normally all equal), so that
/// binding mismatches can be expressed.
#[allow(clippy::too_many_arguments)]
pub fn verify_report<V, const S: usize>(
    vdaf: &V,
    keys: &[&[u8; S]],
    ctxs: &[&[u8]],
    agg_param: &V::AggregationParam,
    nonces: &[&[u8; 16]],
    agg_ids: &[usize],
    public_share_bytes: &[u8],
    input_share_bytes: &[Vec<u8>],
    tamper: Tamper,
    stats: &mut WireStats,
    encode_anomaly: &mut Option<String>,
) -> Outcome<V::OutputShare>
where
    V: Aggregator<S, 16>,
{
    let n = input_share_bytes.len();
    let mut ps = public_share_bytes.to_vec();
    tamper(Point::PublicShare, &mut ps);
    stats.messages += 1;
    stats.bytes += ps.len() as u64;
    let public_share = guard!("decode-public-share", V::PublicShare::get_decoded_with_param(vdaf, &ps));

    let mut states: Vec<V::VerifyState> = Vec::with_capacity(n);
    let mut outbound: Vec<Vec<u8>> = Vec::with_capacity(n);
    for i in 0..n {
        let mut b = input_share_bytes[i].clone();
        tamper(Point::InputShare(i), &mut b);
        stats.messages += 1;
        stats.bytes += b.len() as u64;
        let share = guard!("decode-input-share", V::InputShare::get_decoded_with_param(&(vdaf, agg_ids[i]), &b));
        let (st, vs) = guard!(
            "verify_init",
            vdaf.verify_init(keys[i], ctxs[i], agg_ids[i], agg_param, nonces[i], &public_share, &share)
        );
        let mut vb = enc(&vs, encode_anomaly);
        tamper(Point::VerifierShare(0, i), &mut vb);
        stats.messages += 1;
        stats.bytes += vb.len() as u64;
        states.push(st);
        outbound.push(vb);
    }

    let mut round = 0usize;
    loop {
        stats.rounds += 1;
        // Combine: decode each verifier share with the first state (as the in-tree runner does).
        let mut shares = Vec::with_capacity(outbound.len());
        for vb in &outbound {
            let s = guard!("decode-verifier-share", V::VerifierShare::get_decoded_with_param(&states[0], vb));
            shares.push(s);
        }
        let msg = guard!("verifier_shares_to_message", vdaf.verifier_shares_to_message(ctxs[0], agg_param, shares));
        let mb = enc(&msg, encode_anomaly);

        let mut next_outbound = vec![];
        let mut new_states = vec![];
        let mut outs = vec![];
        for (i, st) in states.iter().enumerate() {
            let mut b = mb.clone();
            tamper(Point::VerifierMessage(round, i), &mut b);
            stats.messages += 1;
            stats.bytes += b.len() as u64;
            let m = guard!("decode-verifier-message", V::VerifierMessage::get_decoded_with_param(st, &b));
            match guard!("verify_next", vdaf.verify_next(ctxs[i], st.clone(), m)) {
                VerifyTransition::Continue(ns, vs) => {
                    let mut vb = enc(&vs, encode_anomaly);
                    tamper(Point::VerifierShare(round + 1, i), &mut vb);
                    stats.messages += 1;
                    stats.bytes += vb.len() as u64;
                    new_states.push(ns);
                    next_outbound.push(vb);
                }
                VerifyTransition::Finish(o) => {
                    // Output shares cross the wire as well.
                    let ob = enc(&o, encode_anomaly);
                    stats.messages += 1;
                    stats.bytes += ob.len() as u64;
                    let o2 = guard!("decode-output-share", V::OutputShare::get_decoded_with_param(&(vdaf, agg_param), &ob));
                    outs.push(o2);
                }
            }
        }
        if outs.len() == n {
            return Outcome::Finished(outs);
        }
        if next_outbound.len() != n {
            return Outcome::Desync(format!("{} finished, {} continued", outs.len(), next_outbound.len()));
        }
        states = new_states;
        outbound = next_outbound;
        round += 1;
        if round > 8 {
            return Outcome::Desync("more than 8 rounds".into());
        }
    }
}

/// Convenience wrapper: consistent key/ctx/nonce, aggregator ids 0..n.
#[allow(clippy::too_many_arguments)]
pub fn verify_report_simple<V, const S: usize>(
    vdaf: &V,
    key: &[u8; S],
    ctx: &[u8],
    agg_param: &V::AggregationParam,
    nonce: &[u8; 16],
    public_share_bytes: &[u8],
    input_share_bytes: &[Vec<u8>],
    tamper: Tamper,
    stats: &mut WireStats,
    encode_anomaly: &mut Option<String>,
) -> Outcome<V::OutputShare>
where
    V: Aggregator<S, 16>,
{
    let n = input_share_bytes.len();
    let keys: Vec<&[u8; S]> = vec![key; n];
    let ctxs: Vec<&[u8]> = vec![ctx; n];
    let nonces: Vec<&[u8; 16]> = vec![nonce; n];
    let ids: Vec<usize> = (0..n).collect();
    verify_report::<V, S>(vdaf, &keys, &ctxs, agg_param, &nonces, &ids, public_share_bytes, input_share_bytes, tamper, stats, encode_anomaly)
}

/// Aggregate per-aggregator output shares (each through `aggregate`, aggregate shares through the
/// wire) and unshard.
pub fn aggregate_and_unshard<V, const S: usize>(
    vdaf: &V,
    agg_param: &V::AggregationParam,
    per_report_outputs: Vec<Vec<V::OutputShare>>,
    encode_anomaly: &mut Option<String>,
) -> Result<V::AggregateResult, (String, Option<PanicInfo>)>
where
    V: Aggregator<S, 16> + Collector,
{
    let n_reports = per_report_outputs.len();
    let n_aggs = vdaf.num_aggregators();
    let mut by_agg: Vec<Vec<V::OutputShare>> = (0..n_aggs).map(|_| vec![]).collect();
    for outs in per_report_outputs {
        for (j, o) in outs.into_iter().enumerate() {
            by_agg[j].push(o);
        }
    }
    let mut agg_shares = vec![];
    for outs in by_agg {
        let a = match catch(|| vdaf.aggregate(agg_param, outs)) {
            Ok(Ok(a)) => a,
            Ok(Err(e)) => return Err((format!("aggregate: {e}"), None)),
            Err(p) => return Err(("aggregate panicked".into(), Some(p))),
        };
        let b = enc(&a, encode_anomaly);
        let a2 = match catch(|| V::AggregateShare::get_decoded_with_param(&(vdaf, agg_param), &b)) {
            Ok(Ok(a)) => a,
            Ok(Err(e)) => return Err((format!("decode aggregate share: {e}"), None)),
            Err(p) => return Err(("decode aggregate share panicked".into(), Some(p))),
        };
        agg_shares.push(a2);
    }
    match catch(|| vdaf.unshard(agg_param, agg_shares, n_reports)) {
        Ok(Ok(r)) => Ok(r),
        Ok(Err(e)) => Err((format!("unshard: {e}"), None)),
        Err(p) => Err(("unshard panicked".into(), Some(p))),
    }
}

/// Merge helper used by C13 and others: sum of aggregate shares via `merge`.
#[allow(dead_code)]
pub fn merge_all<A: Aggregatable>(mut acc: A, rest: &[A]) -> Result<A, String> {
    for r in rest {
        acc.merge(r).map_err(|e| e.to_string())?;
    }
    Ok(acc)
}
