//! Shared `main` of the per-property driver binaries `pv_cXX`: each invocation runs one shard of
//! one property's workload and writes a JSON result; `/verif/check` merges shards, matches known
//! findings and writes the evidence file.

use crate::common::*;
use std::time::Instant;

#[global_allocator]
static GLOBAL: MonitorAlloc = MonitorAlloc;

pub fn main_with(expect: &str, driver: fn(&mut Ctx)) {
    let args = parse_args();
    if args.prop != expect {
        eprintln!("this binary runs property {expect}, not {}", args.prop);
        std::process::exit(3)
    }
    install_panic_hook();
    let mut ctx = Ctx::new(&args.prop, args.tier, args.seed, args.shard, args.nshards);
    ctx.trace = args.trace;
    ctx.scale = args.scale;
    let t0 = Instant::now();
    // A panic escaping a driver is a harness error, never a verdict by itself: the shard is marked
    // inconclusive, but everything the monitors recorded before it (incl. violations) is kept.
    let r = catch(|| driver(&mut ctx));
    let wall = t0.elapsed().as_secs_f64();
    if let Err(pi) = r {
        eprintln!("HARNESS-ERROR: driver {} panicked outside a monitored call: {} at {}", args.prop, pi.message, pi.location);
        ctx.inconclusive(format!("driver panicked outside a monitored call: {} at {}", pi.message, pi.location));
    }
    let unaligned = UNALIGNED_INPUTS_MADE.load(std::sync::atomic::Ordering::Relaxed);
    if unaligned > 0 {
        ctx.count_n("idpf_inputs_with_nonzero_storage_offset", unaligned);
    }
    let out = ctx.to_json(wall);
    let text = serde_json::to_string(&out).unwrap();
    match args.out {
        Some(p) => std::fs::write(p, text).unwrap(),
        None => println!("{text}"),
    }
}
