//! Harness-defined **spy VDAF** for C12 (ping-pong topology).
//!
//! A two-aggregator VDAF with a configurable number of verification rounds `R` whose every
//! protocol object is bound to (aggregator id, round, session) and integrity-protected, so that the
//! topology code cannot get away with handing the wrong object to the wrong call:
//!
//! * verifier shares carry `(agg id, round, session tag, ctx/agg-param binding, value)`;
//! * `verifier_shares_to_message` FAILS unless it is given exactly `[leader share, helper share]`
//!   (aggregator order) of the same round and session, combined with the right ctx / agg param;
//!   the combination is not commutative;
//! * verifier messages carry `(round, tag, leader value, helper value, combined value)`;
//!   `verify_next` refuses a message of another round/session or one that does not contain the
//!   caller's own share value;
//! * states, shares and messages are non-empty, have real codecs (`Encode` /
//!   `ParameterizedDecode` with exactly the parameters the `Aggregator` trait demands) ending in
//!   a checksum, and the decoders refuse objects of the wrong round (share/message round must
//!   equal the round of the state given as decoding parameter);
//! * the output share is a digest of the whole transcript, so a "direct broadcast execution" and
//!   a ping-pong execution agree only if every round saw exactly the same objects;
//! * every call (op, caller label, agg id, round, argument digest, result) is appended to a log
//!   shared by all clones of the VDAF value (`Arc<Mutex<Vec<Event>>>`).
//!
//! The spy is NOT code under test; it is the instrument through which the topology is observed.

use crate::common::{digest, fnv64};
use prio::codec::{CodecError, Decode, Encode, ParameterizedDecode};
use prio::vdaf::{Aggregatable, Aggregator, Client, Collector, Vdaf, VdafError, VerifyTransition};
use std::io::{Cursor, Read};
use std::sync::{Arc, Mutex};

#[derive(Clone, Copy, Debug, PartialEq, Eq)]
pub enum Op {
    Init,
    Combine,
    Next,
    DecState,
    DecShare,
    DecMsg,
}

#[derive(Clone, Debug, PartialEq, Eq)]
pub struct Event {
    /// Label of the VDAF handle through which the call was made (0 leader, 1 helper, 2 broadcast
    /// reference, 3 crash-point re-evaluation); 255 for decoders reached without a handle.
    pub label: u8,
    pub op: Op,
    /// Aggregator id the call is about (id of the state for Next / decoders; 255 for Combine).
    pub id: u8,
    /// Round of the state / shares the call is about.
    pub round: u8,
    /// Combine: (agg id, round) of every share in the order given.
    pub shares: Vec<(u8, u8)>,
    /// Digest of the arguments.
    pub args: u64,
    pub ok: bool,
}

pub type Log = Arc<Mutex<Vec<Event>>>;

pub fn new_log() -> Log {
    Arc::new(Mutex::new(Vec::new()))
}

#[derive(Clone)]
pub struct Spy {
    pub rounds: u8,
    /// Size knob for the variable-length filler carried by shares / messages / states.
    pub pad: u8,
    pub label: u8,
    pub log: Log,
}

impl std::fmt::Debug for Spy {
    fn fmt(&self, f: &mut std::fmt::Formatter<'_>) -> std::fmt::Result {
        write!(f, "Spy(rounds={}, pad={}, label={})", self.rounds, self.pad, self.label)
    }
}

impl Spy {
    pub fn new(rounds: u8, pad: u8, label: u8, log: Log) -> Self {
        assert!(rounds >= 1);
        Spy { rounds, pad, label, log }
    }
    pub fn relabel(&self, label: u8, log: Log) -> Self {
        Spy { rounds: self.rounds, pad: self.pad, label, log }
    }
    fn ev(&self, op: Op, id: u8, round: u8, shares: Vec<(u8, u8)>, args: u64, ok: bool) {
        self.log.lock().unwrap().push(Event { label: self.label, op, id, round, shares, args, ok });
    }
}

fn err<T>(s: impl Into<String>) -> Result<T, VdafError> {
    Err(VdafError::Uncategorized(s.into()))
}

fn cerr<T>(s: &str) -> Result<T, CodecError> {
    Err(CodecError::Other(s.to_string().into()))
}

fn filler(seed: u64, n: usize) -> Vec<u8> {
    let mut v = Vec::with_capacity(n);
    let mut x = seed;
    while v.len() < n {
        x = fnv64(&x.to_le_bytes());
        v.push((x >> 24) as u8);
    }
    v
}

// ---- checksummed framing helpers ---------------------------------------------------------------

fn finish_checksum(start: usize, bytes: &mut Vec<u8>) {
    let c = fnv64(&bytes[start..]);
    bytes.extend_from_slice(&c.to_be_bytes());
}

struct Rd<'a, 'b> {
    cur: &'a mut Cursor<&'b [u8]>,
    start: usize,
}

impl<'a, 'b> Rd<'a, 'b> {
    fn new(cur: &'a mut Cursor<&'b [u8]>) -> Self {
        let start = cur.position() as usize;
        Rd { cur, start }
    }
    fn u8(&mut self) -> Result<u8, CodecError> {
        u8::decode(self.cur)
    }
    fn u64(&mut self) -> Result<u64, CodecError> {
        u64::decode(self.cur)
    }
    fn blob(&mut self) -> Result<Vec<u8>, CodecError> {
        let n = self.u8()? as usize;
        let mut v = vec![0u8; n];
        self.cur.read_exact(&mut v)?;
        Ok(v)
    }
    fn checksum(&mut self) -> Result<(), CodecError> {
        let end = self.cur.position() as usize;
        let want = fnv64(&self.cur.get_ref()[self.start..end]);
        let got = self.u64()?;
        if got != want {
            return cerr("spy: checksum mismatch");
        }
        Ok(())
    }
}

fn put_blob(bytes: &mut Vec<u8>, b: &[u8]) {
    bytes.push(b.len() as u8);
    bytes.extend_from_slice(b);
}

// ---- simple value types ------------------------------------------------------------------------

#[derive(Clone, Copy, Debug, PartialEq, Eq)]
pub struct SpyAggParam(pub u8);

impl Encode for SpyAggParam {
    fn encode(&self, bytes: &mut Vec<u8>) -> Result<(), CodecError> {
        self.0.encode(bytes)
    }
    fn encoded_len(&self) -> Option<usize> {
        Some(1)
    }
}

impl Decode for SpyAggParam {
    fn decode(bytes: &mut Cursor<&[u8]>) -> Result<Self, CodecError> {
        Ok(SpyAggParam(u8::decode(bytes)?))
    }
}

#[derive(Clone, Copy, Debug, PartialEq, Eq)]
pub struct SpyPublic(pub u64);

impl Encode for SpyPublic {
    fn encode(&self, bytes: &mut Vec<u8>) -> Result<(), CodecError> {
        self.0.encode(bytes)
    }
    fn encoded_len(&self) -> Option<usize> {
        Some(8)
    }
}

impl ParameterizedDecode<Spy> for SpyPublic {
    fn decode_with_param(_: &Spy, bytes: &mut Cursor<&[u8]>) -> Result<Self, CodecError> {
        Ok(SpyPublic(u64::decode(bytes)?))
    }
}

#[derive(Clone, Copy, Debug, PartialEq, Eq)]
pub struct SpyInput {
    pub id: u8,
    pub v: u64,
}

impl Encode for SpyInput {
    fn encode(&self, bytes: &mut Vec<u8>) -> Result<(), CodecError> {
        self.id.encode(bytes)?;
        self.v.encode(bytes)
    }
    fn encoded_len(&self) -> Option<usize> {
        Some(9)
    }
}

impl<'a> ParameterizedDecode<(&'a Spy, usize)> for SpyInput {
    fn decode_with_param((_, agg_id): &(&'a Spy, usize), bytes: &mut Cursor<&[u8]>) -> Result<Self, CodecError> {
        let id = u8::decode(bytes)?;
        if id as usize != *agg_id {
            return cerr("spy: input share of another aggregator");
        }
        Ok(SpyInput { id, v: u64::decode(bytes)? })
    }
}

#[derive(Clone, Copy, Debug, PartialEq, Eq)]
pub struct SpyOut(pub u64);

impl Encode for SpyOut {
    fn encode(&self, bytes: &mut Vec<u8>) -> Result<(), CodecError> {
        self.0.encode(bytes)
    }
    fn encoded_len(&self) -> Option<usize> {
        Some(8)
    }
}

impl<'a> ParameterizedDecode<(&'a Spy, &'a SpyAggParam)> for SpyOut {
    fn decode_with_param(_: &(&'a Spy, &'a SpyAggParam), bytes: &mut Cursor<&[u8]>) -> Result<Self, CodecError> {
        Ok(SpyOut(u64::decode(bytes)?))
    }
}

#[derive(Clone, Copy, Debug, PartialEq, Eq)]
pub struct SpyAgg(pub u64);

impl Encode for SpyAgg {
    fn encode(&self, bytes: &mut Vec<u8>) -> Result<(), CodecError> {
        self.0.encode(bytes)
    }
    fn encoded_len(&self) -> Option<usize> {
        Some(8)
    }
}

impl<'a> ParameterizedDecode<(&'a Spy, &'a SpyAggParam)> for SpyAgg {
    fn decode_with_param(_: &(&'a Spy, &'a SpyAggParam), bytes: &mut Cursor<&[u8]>) -> Result<Self, CodecError> {
        Ok(SpyAgg(u64::decode(bytes)?))
    }
}

impl From<SpyOut> for SpyAgg {
    fn from(o: SpyOut) -> Self {
        SpyAgg(o.0)
    }
}

impl Aggregatable for SpyAgg {
    type OutputShare = SpyOut;
    fn merge(&mut self, other: &Self) -> Result<(), VdafError> {
        self.0 = self.0.wrapping_add(other.0);
        Ok(())
    }
    fn accumulate(&mut self, o: &SpyOut) -> Result<(), VdafError> {
        self.0 = self.0.wrapping_add(o.0);
        Ok(())
    }
}

// ---- verifier state ----------------------------------------------------------------------------

#[derive(Clone)]
pub struct SpyState {
    pub id: u8,
    pub round: u8,
    pub rounds: u8,
    pub tag: u64,
    pub bind: u64,
    pub acc: u64,
    pub blob: Vec<u8>,
    /// Log handle so that the share / message decoders (which only get a state) can log. Not part
    /// of the value (ignored by equality and by the encoding).
    pub log: Option<Log>,
}

impl std::fmt::Debug for SpyState {
    fn fmt(&self, f: &mut std::fmt::Formatter<'_>) -> std::fmt::Result {
        write!(f, "SpyState(id={}, round={}/{}, acc={:016x})", self.id, self.round, self.rounds, self.acc)
    }
}

impl PartialEq for SpyState {
    fn eq(&self, o: &Self) -> bool {
        self.id == o.id
            && self.round == o.round
            && self.rounds == o.rounds
            && self.tag == o.tag
            && self.bind == o.bind
            && self.acc == o.acc
            && self.blob == o.blob
    }
}
impl Eq for SpyState {}

impl SpyState {
    fn ev(&self, op: Op, round: u8, args: u64, ok: bool) {
        if let Some(l) = &self.log {
            l.lock().unwrap().push(Event { label: 255, op, id: self.id, round, shares: vec![(self.id, self.round)], args, ok });
        }
    }
}

impl Encode for SpyState {
    fn encode(&self, bytes: &mut Vec<u8>) -> Result<(), CodecError> {
        let s = bytes.len();
        bytes.push(0xA5);
        bytes.push(self.id);
        bytes.push(self.round);
        bytes.push(self.rounds);
        self.tag.encode(bytes)?;
        self.bind.encode(bytes)?;
        self.acc.encode(bytes)?;
        put_blob(bytes, &self.blob);
        finish_checksum(s, bytes);
        Ok(())
    }
    fn encoded_len(&self) -> Option<usize> {
        // `encoded_len` is an optional hint (the trait's default is None): values with an odd blob length give none,
        // so that code which wrongly RELIES on the hint (e.g. to validate a decode) is exercised too
        if self.blob.len() % 2 == 1 {
            return None;
        }
        Some(4 + 24 + 1 + self.blob.len() + 8)
    }
}

impl<'a> ParameterizedDecode<(&'a Spy, usize)> for SpyState {
    fn decode_with_param((spy, agg_id): &(&'a Spy, usize), bytes: &mut Cursor<&[u8]>) -> Result<Self, CodecError> {
        let r = (|| {
            let mut rd = Rd::new(bytes);
            if rd.u8()? != 0xA5 {
                return cerr("spy: not a verifier state");
            }
            let id = rd.u8()?;
            let round = rd.u8()?;
            let rounds = rd.u8()?;
            let tag = rd.u64()?;
            let bind = rd.u64()?;
            let acc = rd.u64()?;
            let blob = rd.blob()?;
            rd.checksum()?;
            if id as usize != *agg_id {
                return cerr("spy: state of another aggregator");
            }
            if rounds != spy.rounds || round >= rounds {
                return cerr("spy: state of another instance / impossible round");
            }
            Ok(SpyState { id, round, rounds, tag, bind, acc, blob, log: Some(spy.log.clone()) })
        })();
        let (round, ok) = match &r {
            Ok(s) => (s.round, true),
            Err(_) => (255, false),
        };
        spy.ev(Op::DecState, *agg_id as u8, round, vec![], 0, ok);
        r
    }
}

// ---- verifier share ----------------------------------------------------------------------------

#[derive(Clone, Debug, PartialEq, Eq)]
pub struct SpyShare {
    pub id: u8,
    pub round: u8,
    pub tag: u64,
    pub bind: u64,
    pub val: u64,
    pub blob: Vec<u8>,
}

impl Encode for SpyShare {
    fn encode(&self, bytes: &mut Vec<u8>) -> Result<(), CodecError> {
        let s = bytes.len();
        bytes.push(0x5A);
        bytes.push(self.id);
        bytes.push(self.round);
        self.tag.encode(bytes)?;
        self.bind.encode(bytes)?;
        self.val.encode(bytes)?;
        put_blob(bytes, &self.blob);
        finish_checksum(s, bytes);
        Ok(())
    }
    fn encoded_len(&self) -> Option<usize> {
        // `encoded_len` is an optional hint (the trait's default is None): values with an odd blob length give none,
        // so that code which wrongly RELIES on the hint (e.g. to validate a decode) is exercised too
        if self.blob.len() % 2 == 1 {
            return None;
        }
        Some(3 + 24 + 1 + self.blob.len() + 8)
    }
}

impl ParameterizedDecode<SpyState> for SpyShare {
    fn decode_with_param(st: &SpyState, bytes: &mut Cursor<&[u8]>) -> Result<Self, CodecError> {
        let mut seen_round = 255u8;
        let r = (|| {
            let mut rd = Rd::new(bytes);
            if rd.u8()? != 0x5A {
                return cerr("spy: not a verifier share");
            }
            let id = rd.u8()?;
            let round = rd.u8()?;
            seen_round = round;
            let tag = rd.u64()?;
            let bind = rd.u64()?;
            let val = rd.u64()?;
            let blob = rd.blob()?;
            rd.checksum()?;
            if id > 1 {
                return cerr("spy: share of an unknown aggregator");
            }
            if round != st.round {
                return cerr("spy: verifier share of another round than the decoding state");
            }
            if tag != st.tag {
                return cerr("spy: verifier share of another session");
            }
            Ok(SpyShare { id, round, tag, bind, val, blob })
        })();
        st.ev(Op::DecShare, seen_round, 0, r.is_ok());
        r
    }
}

// ---- verifier message --------------------------------------------------------------------------

#[derive(Clone, Debug, PartialEq, Eq)]
pub struct SpyMsg {
    pub round: u8,
    pub tag: u64,
    pub vals: [u64; 2],
    pub combined: u64,
    pub blob: Vec<u8>,
}

impl Encode for SpyMsg {
    fn encode(&self, bytes: &mut Vec<u8>) -> Result<(), CodecError> {
        let s = bytes.len();
        bytes.push(0xC3);
        bytes.push(self.round);
        self.tag.encode(bytes)?;
        self.vals[0].encode(bytes)?;
        self.vals[1].encode(bytes)?;
        self.combined.encode(bytes)?;
        put_blob(bytes, &self.blob);
        finish_checksum(s, bytes);
        Ok(())
    }
    fn encoded_len(&self) -> Option<usize> {
        // `encoded_len` is an optional hint (the trait's default is None): values with an odd blob length give none,
        // so that code which wrongly RELIES on the hint (e.g. to validate a decode) is exercised too
        if self.blob.len() % 2 == 1 {
            return None;
        }
        Some(2 + 32 + 1 + self.blob.len() + 8)
    }
}

impl ParameterizedDecode<SpyState> for SpyMsg {
    fn decode_with_param(st: &SpyState, bytes: &mut Cursor<&[u8]>) -> Result<Self, CodecError> {
        let mut seen_round = 255u8;
        let r = (|| {
            let mut rd = Rd::new(bytes);
            if rd.u8()? != 0xC3 {
                return cerr("spy: not a verifier message");
            }
            let round = rd.u8()?;
            seen_round = round;
            let tag = rd.u64()?;
            let v0 = rd.u64()?;
            let v1 = rd.u64()?;
            let combined = rd.u64()?;
            let blob = rd.blob()?;
            rd.checksum()?;
            if round != st.round {
                return cerr("spy: verifier message of another round than the decoding state");
            }
            if tag != st.tag {
                return cerr("spy: verifier message of another session");
            }
            Ok(SpyMsg { round, tag, vals: [v0, v1], combined, blob })
        })();
        st.ev(Op::DecMsg, seen_round, 0, r.is_ok());
        r
    }
}

// ---- the VDAF ----------------------------------------------------------------------------------

impl Vdaf for Spy {
    type Measurement = u64;
    type AggregateResult = u64;
    type AggregationParam = SpyAggParam;
    type PublicShare = SpyPublic;
    type InputShare = SpyInput;
    type OutputShare = SpyOut;
    type AggregateShare = SpyAgg;

    fn algorithm_id(&self) -> u32 {
        0xFFFF_5059
    }
    fn num_aggregators(&self) -> usize {
        2
    }
}

fn share_val(acc: u64, round: u8) -> u64 {
    digest(&[b"spy share", &acc.to_le_bytes(), &[round]])
}

fn bind_of(ctx: &[u8], agg_param: &SpyAggParam) -> u64 {
    digest(&[b"spy bind", ctx, &[agg_param.0]])
}

impl Spy {
    fn mk_share(&self, id: u8, round: u8, tag: u64, bind: u64, acc: u64) -> SpyShare {
        let val = share_val(acc, round);
        SpyShare { id, round, tag, bind, val, blob: filler(val, (self.pad as usize + round as usize) % (self.pad as usize + 1)) }
    }
}

impl Aggregator<16, 16> for Spy {
    type VerifyState = SpyState;
    type VerifierShare = SpyShare;
    type VerifierMessage = SpyMsg;

    fn verify_init(
        &self,
        verify_key: &[u8; 16],
        ctx: &[u8],
        agg_id: usize,
        agg_param: &SpyAggParam,
        nonce: &[u8; 16],
        public_share: &SpyPublic,
        input_share: &SpyInput,
    ) -> Result<(SpyState, SpyShare), VdafError> {
        let args = digest(&[verify_key, ctx, &[agg_param.0], nonce, &public_share.0.to_le_bytes(), &[input_share.id], &input_share.v.to_le_bytes()]);
        if agg_id > 1 || input_share.id as usize != agg_id {
            self.ev(Op::Init, agg_id as u8, 0, vec![], args, false);
            return err("spy: input share does not belong to this aggregator");
        }
        let tag = digest(&[b"spy tag", verify_key, ctx, &[agg_param.0], nonce, &public_share.0.to_le_bytes()]);
        let bind = bind_of(ctx, agg_param);
        let acc = digest(&[b"spy acc", &tag.to_le_bytes(), &[agg_id as u8], &input_share.v.to_le_bytes()]);
        let st = SpyState {
            id: agg_id as u8,
            round: 0,
            rounds: self.rounds,
            tag,
            bind,
            acc,
            blob: filler(acc, self.pad as usize),
            log: Some(self.log.clone()),
        };
        let sh = self.mk_share(agg_id as u8, 0, tag, bind, acc);
        self.ev(Op::Init, agg_id as u8, 0, vec![], args, true);
        Ok((st, sh))
    }

    fn verifier_shares_to_message<M: IntoIterator<Item = SpyShare>>(
        &self,
        ctx: &[u8],
        agg_param: &SpyAggParam,
        inputs: M,
    ) -> Result<SpyMsg, VdafError> {
        let shares: Vec<SpyShare> = inputs.into_iter().collect();
        let order: Vec<(u8, u8)> = shares.iter().map(|s| (s.id, s.round)).collect();
        let mut argb = vec![];
        for s in &shares {
            argb.extend_from_slice(&s.val.to_le_bytes());
        }
        let args = fnv64(&argb);
        let round = shares.first().map(|s| s.round).unwrap_or(255);
        let r = (|| {
            if shares.len() != 2 {
                return err("spy: need exactly two verifier shares");
            }
            if shares[0].id != 0 || shares[1].id != 1 {
                return err("spy: verifier shares not in aggregator order [leader, helper]");
            }
            if shares[0].round != shares[1].round {
                return err("spy: verifier shares of different rounds");
            }
            if shares[0].round >= self.rounds {
                return err("spy: verifier shares of an impossible round");
            }
            if shares[0].tag != shares[1].tag {
                return err("spy: verifier shares of different sessions");
            }
            let bind = bind_of(ctx, agg_param);
            if shares[0].bind != bind || shares[1].bind != bind {
                return err("spy: combiner called with another ctx / aggregation parameter than the shares were made for");
            }
            let combined = digest(&[
                b"spy msg",
                &shares[0].tag.to_le_bytes(),
                &[shares[0].round],
                &shares[0].val.to_le_bytes(),
                &shares[1].val.to_le_bytes(),
                &shares[0].blob,
                &shares[1].blob,
            ]);
            Ok(SpyMsg {
                round: shares[0].round,
                tag: shares[0].tag,
                vals: [shares[0].val, shares[1].val],
                combined,
                blob: filler(combined, (self.pad as usize) / 2 + 1),
            })
        })();
        self.ev(Op::Combine, 255, round, order, args, r.is_ok());
        r
    }

    fn verify_next(&self, ctx: &[u8], state: SpyState, input: SpyMsg) -> Result<VerifyTransition<Self, 16, 16>, VdafError> {
        let args = digest(&[&state.acc.to_le_bytes(), &[input.round], &input.combined.to_le_bytes()]);
        let r = (|| {
            if state.rounds != self.rounds || state.round >= self.rounds {
                return err("spy: state of another instance");
            }
            if input.round != state.round {
                return err("spy: verifier message of another round than the state");
            }
            if input.tag != state.tag {
                return err("spy: verifier message of another session");
            }
            if input.vals[state.id as usize] != share_val(state.acc, state.round) {
                return err("spy: verifier message was not combined from this aggregator's share of this round");
            }
            // ctx binding: the state remembers digest(ctx, agg_param) only jointly, so bind ctx by
            // folding it into the accumulator (a different ctx gives a different output share).
            let acc = digest(&[b"spy step", &state.acc.to_le_bytes(), &input.combined.to_le_bytes(), ctx]);
            if state.round + 1 == self.rounds {
                Ok(VerifyTransition::Finish(SpyOut(acc)))
            } else {
                let st = SpyState {
                    id: state.id,
                    round: state.round + 1,
                    rounds: state.rounds,
                    tag: state.tag,
                    bind: state.bind,
                    acc,
                    blob: filler(acc, (self.pad as usize + state.round as usize + 1) % (self.pad as usize + 2)),
                    log: Some(self.log.clone()),
                };
                let sh = self.mk_share(state.id, state.round + 1, state.tag, state.bind, acc);
                Ok(VerifyTransition::Continue(st, sh))
            }
        })();
        self.ev(Op::Next, state.id, state.round, vec![], args, r.is_ok());
        r
    }

    fn aggregate_init(&self, _: &SpyAggParam) -> SpyAgg {
        SpyAgg(0)
    }

    fn is_agg_param_valid(_: &SpyAggParam, _: &[SpyAggParam]) -> bool {
        true
    }
}

impl Client<16> for Spy {
    fn shard(&self, ctx: &[u8], measurement: &u64, nonce: &[u8; 16]) -> Result<(SpyPublic, Vec<SpyInput>), VdafError> {
        // Deterministic (the harness never needs OS randomness here).
        let r = digest(&[b"spy shard", ctx, nonce, &measurement.to_le_bytes()]);
        Ok((
            SpyPublic(digest(&[b"spy public", &r.to_le_bytes()])),
            vec![SpyInput { id: 0, v: r }, SpyInput { id: 1, v: measurement.wrapping_sub(r) }],
        ))
    }
}

impl Collector for Spy {
    fn unshard<M: IntoIterator<Item = SpyAgg>>(&self, _: &SpyAggParam, agg_shares: M, _: usize) -> Result<u64, VdafError> {
        Ok(agg_shares.into_iter().fold(0u64, |a, s| a.wrapping_add(s.0)))
    }
}
