//! The "type zoo": harness-side descriptions of every shipped Prio3 validity circuit, with
//! independent reference models (plain-integer contribution, spec-level encoding, validity
//! predicate, truncation) and a dispatcher that instantiates the real library types for a visitor.
//!
//! Reference models are written from the type definitions, not from the library code.

use crate::common::*;
use num_bigint::BigUint;
use prio::field::{Field128, Field64, FieldElement, FieldElementWithInteger, NttFriendlyFieldElement};
use prio::flp::gadgets::{Mul, ParallelSum, ParallelSumMultithreaded};
use prio::flp::types::{Average, Count, Histogram, L1BoundSum, MultihotCountVec, Sum, SumVec};
use prio::flp::{FlpError, Type};
use prio::vdaf::prio3::Prio3;
use prio::vdaf::xof::{Xof, XofHmacSha256Aes128, XofTurboShake128};
use serde_json::{json, Value};

pub const P64: u128 = 18446744069414584321;
pub const P128: u128 = 340282366920938462946865773367900766209;

/// Field helper: conversions between the harness' plain integers and the library's types.
pub trait ZField: NttFriendlyFieldElement + Send + Sync {
    const FNAME: &'static str;
    const P: u128;
    fn int(v: u128) -> Self::Integer;
    fn to_u128(i: Self::Integer) -> u128;
    fn elem(v: u128) -> Self {
        Self::from(Self::int(v % Self::P))
    }
    fn val(self) -> u128 {
        Self::to_u128(Self::Integer::from(self))
    }
}

impl ZField for Field64 {
    const FNAME: &'static str = "Field64";
    const P: u128 = P64;
    fn int(v: u128) -> u64 {
        v as u64
    }
    fn to_u128(i: u64) -> u128 {
        i as u128
    }
}

impl ZField for Field128 {
    const FNAME: &'static str = "Field128";
    const P: u128 = P128;
    fn int(v: u128) -> u128 {
        v
    }
    fn to_u128(i: u128) -> u128 {
        i
    }
}

pub fn addmod(a: u128, b: u128, p: u128) -> u128 {
    // a, b < p < 2^128; avoid overflow
    let (s, o) = a.overflowing_add(b);
    if o || s >= p {
        s.wrapping_sub(p)
    } else {
        s
    }
}

pub fn submod(a: u128, b: u128, p: u128) -> u128 {
    if a >= b {
        a - b
    } else {
        p - (b - a)
    }
}

pub fn mulmod(a: u128, b: u128, p: u128) -> u128 {
    let r = (BigUint::from(a) * BigUint::from(b)) % BigUint::from(p);
    let d = r.to_u64_digits();
    d.first().copied().unwrap_or(0) as u128 | ((d.get(1).copied().unwrap_or(0) as u128) << 64)
}

#[derive(Clone, Copy, Debug, PartialEq, Eq, Hash, PartialOrd, Ord)]
pub enum Kind {
    Count,
    Sum,
    Average,
    SumVec,
    Histogram,
    Multihot,
    L1BoundSum,
}

impl Kind {
    pub const ALL: [Kind; 7] = [
        Kind::Count,
        Kind::Sum,
        Kind::Average,
        Kind::SumVec,
        Kind::Histogram,
        Kind::Multihot,
        Kind::L1BoundSum,
    ];
    pub fn name(self) -> &'static str {
        match self {
            Kind::Count => "Count",
            Kind::Sum => "Sum",
            Kind::Average => "Average",
            Kind::SumVec => "SumVec",
            Kind::Histogram => "Histogram",
            Kind::Multihot => "MultihotCountVec",
            Kind::L1BoundSum => "L1BoundSum",
        }
    }
    pub fn has_joint_rand(self) -> bool {
        matches!(self, Kind::SumVec | Kind::Histogram | Kind::Multihot | Kind::L1BoundSum)
    }
}

/// Harness-side parameters of a type instance.
/// * `max`: max_measurement (Sum, Average, SumVec), max_value (L1BoundSum), max_weight (Multihot).
/// * `len`: vector length / number of buckets (1 for scalar types).
/// * `chunk`: ParallelSum chunk length (ignored for Count/Sum/Average).
#[derive(Clone, Debug, PartialEq, Eq, Hash)]
pub struct Params {
    pub kind: Kind,
    pub max: u128,
    pub len: usize,
    pub chunk: usize,
    /// field prime (P64 or P128)
    pub p: u128,
}

pub fn bits_of(max: u128) -> usize {
    (128 - max.leading_zeros()) as usize
}

impl Params {
    pub fn describe(&self) -> String {
        let f = if self.p == P64 { "F64" } else { "F128" };
        match self.kind {
            Kind::Count => format!("Count<{f}>"),
            Kind::Sum | Kind::Average => format!("{}<{f}>(max={})", self.kind.name(), self.max),
            Kind::SumVec | Kind::L1BoundSum => format!("{}<{f}>(max={},len={},chunk={})", self.kind.name(), self.max, self.len, self.chunk),
            Kind::Histogram => format!("Histogram<{f}>(len={},chunk={})", self.len, self.chunk),
            Kind::Multihot => format!("MultihotCountVec<{f}>(len={},max_weight={},chunk={})", self.len, self.max, self.chunk),
        }
    }

    pub fn bits(&self) -> usize {
        bits_of(self.max)
    }

    /// Weight of the last digit in the modified bit-vector encoding of [0, max].
    pub fn last_weight(&self) -> u128 {
        let b = self.bits();
        self.max - ((1u128 << (b - 1)) - 1)
    }

    /// Length of the encoded measurement.
    pub fn input_len(&self) -> usize {
        match self.kind {
            Kind::Count => 1,
            Kind::Sum | Kind::Average => self.bits(),
            Kind::SumVec => self.bits() * self.len,
            Kind::Histogram => self.len,
            Kind::Multihot => self.len + self.bits(),
            Kind::L1BoundSum => self.bits() * (self.len + 1),
        }
    }

    pub fn output_len(&self) -> usize {
        match self.kind {
            Kind::Count | Kind::Sum | Kind::Average => 1,
            _ => self.len,
        }
    }

    pub fn gadget_calls(&self) -> usize {
        match self.kind {
            Kind::Count => 1,
            Kind::Sum | Kind::Average => self.bits(),
            _ => self.input_len().div_ceil(self.chunk),
        }
    }

    pub fn joint_rand_len(&self) -> usize {
        if self.kind.has_joint_rand() {
            self.gadget_calls()
        } else {
            0
        }
    }

    /// Does the last ParallelSum chunk contain padding?
    pub fn partial_last_chunk(&self) -> bool {
        self.kind.has_joint_rand() && self.input_len() % self.chunk != 0
    }

    /// Spec-level modified bit-vector encoding of v in [0, max].
    fn enc_int(&self, v: u128, out: &mut Vec<u128>) {
        let b = self.bits();
        let threshold = (1u128 << (b - 1)) - 1;
        let (rest, high) = if v > threshold { (v - self.last_weight(), 1) } else { (v, 0) };
        for i in 0..b - 1 {
            out.push((rest >> i) & 1);
        }
        out.push(high);
    }

    fn dec_int(&self, digits: &[u128]) -> u128 {
        // linear decoding mod p
        let p = self.p;
        let mut acc = 0u128;
        let mut pw = 1u128 % p;
        let (last, rest) = digits.split_last().unwrap();
        for d in rest {
            acc = addmod(acc, mulmod(*d % p, pw, p), p);
            pw = addmod(pw, pw, p);
        }
        addmod(acc, mulmod(*last % p, self.last_weight() % p, p), p)
    }

    /// Generic measurement representation (plain integers):
    /// Count: [0|1]; Sum/Average: [v]; SumVec/L1BoundSum: vector; Histogram: [bucket];
    /// Multihot: 0/1 vector.
    pub fn gen_measurement(&self, rng: &mut Rng64) -> Vec<u128> {
        let style = rng.below(8);
        match self.kind {
            Kind::Count => vec![rng.below(2) as u128],
            Kind::Sum | Kind::Average => vec![match style {
                0 => 0,
                1 => self.max,
                2 => self.max - 1.min(self.max),
                3 => (1u128 << (self.bits() - 1)) - 1,
                4 => (1u128 << (self.bits() - 1)).min(self.max),
                _ => rng.u128() % (self.max + 1),
            }],
            Kind::SumVec => (0..self.len)
                .map(|_| match style {
                    0 => 0,
                    1 => self.max,
                    2 => [0, self.max][rng.usize_below(2)],
                    _ => rng.u128() % (self.max + 1),
                })
                .collect(),
            Kind::Histogram => vec![match style {
                0 => 0,
                1 => self.len as u128 - 1,
                _ => rng.below(self.len as u64) as u128,
            }],
            Kind::Multihot => {
                let maxw = (self.max as usize).min(self.len);
                let w = match style {
                    0 => 0,
                    1 | 2 => maxw,
                    _ => rng.usize_below(maxw + 1),
                };
                let mut idx: Vec<usize> = (0..self.len).collect();
                rng.shuffle(&mut idx);
                let mut v = vec![0u128; self.len];
                for i in idx.into_iter().take(w) {
                    v[i] = 1;
                }
                v
            }
            Kind::L1BoundSum => {
                // L1 norm must be <= max.
                let target = match style {
                    0 => 0,
                    1 | 2 => self.max,
                    _ => rng.u128() % (self.max + 1),
                };
                let mut v = vec![0u128; self.len];
                let mut left = target;
                match style % 3 {
                    0 => {
                        // all mass on one coordinate
                        let i = rng.usize_below(self.len);
                        v[i] = left;
                    }
                    _ => {
                        for i in 0..self.len {
                            if left == 0 {
                                break;
                            }
                            let take = if i == self.len - 1 { left } else { rng.u128() % (left + 1) };
                            v[i] = take;
                            left -= take;
                        }
                        rng.shuffle(&mut v);
                    }
                }
                v
            }
        }
    }

    /// Plain-integer contribution of one measurement to the aggregate vector.
    pub fn contribution(&self, m: &[u128]) -> Vec<u128> {
        match self.kind {
            Kind::Count | Kind::Sum | Kind::Average => vec![m[0]],
            Kind::SumVec | Kind::Multihot | Kind::L1BoundSum => m.to_vec(),
            Kind::Histogram => {
                let mut v = vec![0u128; self.len];
                v[m[0] as usize] = 1;
                v
            }
        }
    }

    /// Spec-level encoding of a measurement as 0/1 integers.
    pub fn encode_ref(&self, m: &[u128]) -> Vec<u128> {
        let mut out = Vec::with_capacity(self.input_len());
        match self.kind {
            Kind::Count => out.push(m[0]),
            Kind::Sum | Kind::Average => self.enc_int(m[0], &mut out),
            Kind::SumVec => {
                for v in m {
                    self.enc_int(*v, &mut out)
                }
            }
            Kind::Histogram => {
                out = vec![0; self.len];
                out[m[0] as usize] = 1;
            }
            Kind::Multihot => {
                out.extend_from_slice(m);
                let w: u128 = m.iter().sum();
                self.enc_int(w, &mut out);
            }
            Kind::L1BoundSum => {
                for v in m {
                    self.enc_int(*v, &mut out)
                }
                let n: u128 = m.iter().sum();
                self.enc_int(n, &mut out);
            }
        }
        out
    }

    /// Validity predicate on an encoded input (integers mod p), straight from the type
    /// definitions: the language the FLP is supposed to recognise.
    pub fn is_valid(&self, inp: &[u128]) -> bool {
        if inp.len() != self.input_len() {
            return false;
        }
        let all_bits = inp.iter().all(|x| *x == 0 || *x == 1);
        match self.kind {
            Kind::Count | Kind::Sum | Kind::Average | Kind::SumVec => all_bits,
            Kind::Histogram => all_bits && inp.iter().sum::<u128>() == 1,
            Kind::Multihot => {
                if !all_bits {
                    return false;
                }
                let w: u128 = inp[..self.len].iter().sum();
                let claimed = self.dec_int(&inp[self.len..]);
                w % self.p == claimed
            }
            Kind::L1BoundSum => {
                if !all_bits {
                    return false;
                }
                let b = self.bits();
                let mut obs = 0u128;
                for c in inp.chunks(b).take(self.len) {
                    obs = addmod(obs, self.dec_int(c), self.p);
                }
                let claimed = self.dec_int(&inp[b * self.len..]);
                obs == claimed
            }
        }
    }

    /// Reference truncation (encoded input -> output vector, mod p).
    pub fn truncate_ref(&self, inp: &[u128]) -> Vec<u128> {
        match self.kind {
            Kind::Count => vec![inp[0] % self.p],
            Kind::Sum | Kind::Average => vec![self.dec_int(inp)],
            Kind::SumVec => inp.chunks(self.bits()).map(|c| self.dec_int(c)).collect(),
            Kind::Histogram => inp.to_vec(),
            Kind::Multihot => inp[..self.len].to_vec(),
            Kind::L1BoundSum => inp.chunks(self.bits()).take(self.len).map(|c| self.dec_int(c)).collect(),
        }
    }

    /// Is `out` (mod p) the truncation of SOME valid encoded measurement?
    pub fn output_is_valid(&self, out: &[u128]) -> bool {
        if out.len() != self.output_len() {
            return false;
        }
        match self.kind {
            Kind::Count => out[0] <= 1,
            Kind::Sum | Kind::Average => out[0] <= self.max,
            Kind::SumVec => out.iter().all(|x| *x <= self.max),
            Kind::Histogram => out.iter().all(|x| *x <= 1) && out.iter().sum::<u128>() == 1,
            Kind::Multihot => out.iter().all(|x| *x <= 1) && out.iter().sum::<u128>() <= self.max,
            Kind::L1BoundSum => {
                let mut s = 0u128;
                for x in out {
                    if *x > self.max {
                        return false;
                    }
                    s = s.saturating_add(*x);
                }
                s <= self.max
            }
        }
    }

    /// Families of INVALID encoded inputs (as integers mod p), each with a label.
    pub fn invalid_inputs(&self, rng: &mut Rng64) -> Vec<(String, Vec<u128>)> {
        let p = self.p;
        let n = self.input_len();
        let valid = self.encode_ref(&self.gen_measurement(rng));
        let mut out: Vec<(String, Vec<u128>)> = vec![];
        let nonbits = [2u128, p - 1, (p + 1) / 2, 3, p - 2];
        let mut positions = vec![0usize, n - 1, n / 2];
        if self.kind.has_joint_rand() {
            let c = self.chunk;
            for k in [c.saturating_sub(1), c, c + 1, n - (n % c).max(1), (self.gadget_calls() - 1) * c] {
                if k < n {
                    positions.push(k);
                }
            }
        }
        positions.push(rng.usize_below(n));
        positions.sort();
        positions.dedup();
        for &pos in &positions {
            let nb = *rng.choose(&nonbits);
            let mut v = valid.clone();
            v[pos] = nb;
            out.push((format!("nonbit@{pos}"), v));
        }
        // two non-bits
        if n >= 2 {
            let mut v = valid.clone();
            v[0] = 2;
            v[n - 1] = p - 1;
            out.push(("nonbit-pair(2,-1)".into(), v));
        }
        // Two non-bits whose range-check terms CANCEL when they get the same coefficient of the random linear
        // combination: x = 2/5, y = -1/5 give x(x-1) + y(y-1) = -6/25 + 6/25 = 0. With pairwise distinct
        // coefficients (powers of the joint randomness) this is rejected like any other invalid input; a
        // coefficient schedule that repeats (every 16th / 32nd offset of a chunk, the same offset of two chunks,
        // the first and last element ...) lets it through for EVERY joint randomness. SumVec has no other
        // check, so the pair is placed on top of a valid bit encoding at many position distances.
        if self.kind == Kind::SumVec && n >= 2 {
            let inv5 = {
                // 5^(p-2) mod p
                let (mut b, mut e, mut r) = (5u128 % p, p - 2, 1u128);
                while e > 0 {
                    if e & 1 == 1 {
                        r = mulmod(r, b, p);
                    }
                    b = mulmod(b, b, p);
                    e >>= 1;
                }
                r
            };
            let x = mulmod(2, inv5, p);
            let y = submod(0, inv5, p);
            let c = self.chunk.max(1);
            let mut pairs: Vec<(usize, usize)> = vec![(0, n - 1), (0, 1)];
            for d in [1usize, 2, 4, 8, 16, 32, 64, c, c / 2] {
                for base in [0usize, 1, 15, 16, 17, 18, 31, 32, 33, c, c + 16, c + 18, rng.usize_below(n)] {
                    if d > 0 && base + d < n {
                        pairs.push((base, base + d));
                    }
                }
            }
            pairs.sort();
            pairs.dedup();
            // keep the family small: all pairs for small inputs; otherwise the block-period pairs (distance 16
            // or 32, both offsets past the first block) plus a sample of the rest
            if pairs.len() > 24 {
                let (mut keep, mut rest): (Vec<_>, Vec<_>) = pairs.into_iter().partition(|(i, j)| (j - i == 16 || j - i == 32) && *i >= 16);
                rng.shuffle(&mut rest);
                rest.truncate(24usize.saturating_sub(keep.len()).max(8));
                keep.extend(rest);
                pairs = keep;
            }
            for (i, j) in pairs {
                let mut v = valid.clone();
                v[i] = x;
                v[j] = y;
                out.push((format!("cancel-pair(2/5,-1/5)@{i}-vs-{j}"), v));
            }
        }
        match self.kind {
            Kind::Histogram => {
                out.push(("weight0".into(), vec![0; n]));
                if n >= 2 {
                    let mut v = vec![0; n];
                    v[0] = 1;
                    v[n - 1] = 1;
                    out.push(("weight2".into(), v));
                    // affine-only near miss: entries sum to 1 but are not bits
                    let mut v = vec![0; n];
                    v[0] = 2;
                    v[n - 1] = p - 1;
                    out.push(("sum1-nonbits(2,-1)".into(), v));
                    out.push(("all-ones".into(), vec![1; n]));
                }
            }
            Kind::Multihot => {
                // claimed weight != observed weight
                let m = self.gen_measurement(rng);
                let w: u128 = m.iter().sum();
                for claimed in [w.wrapping_add(1), w.wrapping_sub(1)] {
                    if claimed <= self.max {
                        let mut v = m.clone();
                        self.enc_int(claimed, &mut v);
                        if !self.is_valid(&v) {
                            out.push((format!("claimed-weight-{claimed}-vs-{w}"), v));
                        }
                    }
                }
                // over-weight vector with the maximum claim
                if (self.max as usize) < self.len {
                    let mut v = vec![0u128; self.len];
                    for x in v.iter_mut().take(self.max as usize + 1) {
                        *x = 1;
                    }
                    self.enc_int(self.max, &mut v);
                    out.push(("overweight".into(), v));
                }
            }
            Kind::L1BoundSum => {
                let m = self.gen_measurement(rng);
                let norm: u128 = m.iter().sum();
                for claimed in [norm.wrapping_add(1), norm.wrapping_sub(1)] {
                    if claimed <= self.max {
                        let mut v = vec![];
                        for x in &m {
                            self.enc_int(*x, &mut v);
                        }
                        self.enc_int(claimed, &mut v);
                        if !self.is_valid(&v) {
                            out.push((format!("claimed-norm-{claimed}-vs-{norm}"), v));
                        }
                    }
                }
                // norm above the bound: two coordinates at max, claim max
                if self.len >= 2 {
                    let mut v = vec![];
                    self.enc_int(self.max, &mut v);
                    self.enc_int(self.max, &mut v);
                    for _ in 2..self.len {
                        self.enc_int(0, &mut v);
                    }
                    self.enc_int(self.max, &mut v);
                    if !self.is_valid(&v) {
                        out.push(("norm-above-bound".into(), v));
                    }
                }
            }
            _ => {}
        }
        out.retain(|(_, v)| !self.is_valid(v));
        out
    }

    pub fn meas_json(&self, m: &[u128]) -> Value {
        if m.len() <= 12 {
            json!(m.iter().map(|x| x.to_string()).collect::<Vec<_>>())
        } else {
            json!({"len": m.len(), "head": m[..6].iter().map(|x| x.to_string()).collect::<Vec<_>>(), "sum": m.iter().fold(BigUint::from(0u8), |a, b| a + BigUint::from(*b)).to_string()})
        }
    }
}

#[derive(Clone, Debug, PartialEq)]
pub enum ResultVec {
    Ints(Vec<u128>),
    Float(f64),
}

/// Glue between `Params` and a concrete library type.
pub trait Kinded: Type + 'static
where
    Self::Field: ZField,
{
    fn build(p: &Params) -> Result<Self, FlpError>;
    fn meas(p: &Params, m: &[u128]) -> Self::Measurement;
    fn result(r: &Self::AggregateResult) -> ResultVec;
}

impl<F: ZField> Kinded for Count<F> {
    fn build(_: &Params) -> Result<Self, FlpError> {
        Ok(Count::new())
    }
    fn meas(_: &Params, m: &[u128]) -> bool {
        m[0] != 0
    }
    fn result(r: &F::Integer) -> ResultVec {
        ResultVec::Ints(vec![F::to_u128(*r)])
    }
}

impl<F: ZField> Kinded for Sum<F> {
    fn build(p: &Params) -> Result<Self, FlpError> {
        Sum::new(F::int(p.max))
    }
    fn meas(_: &Params, m: &[u128]) -> F::Integer {
        F::int(m[0])
    }
    fn result(r: &F::Integer) -> ResultVec {
        ResultVec::Ints(vec![F::to_u128(*r)])
    }
}

impl<F: ZField> Kinded for Average<F> {
    fn build(p: &Params) -> Result<Self, FlpError> {
        Average::new(F::int(p.max))
    }
    fn meas(_: &Params, m: &[u128]) -> F::Integer {
        F::int(m[0])
    }
    fn result(r: &f64) -> ResultVec {
        ResultVec::Float(*r)
    }
}

macro_rules! kinded_vec {
    ($S:ident) => {
        impl<F: ZField> Kinded for SumVec<F, $S<F, Mul>> {
            fn build(p: &Params) -> Result<Self, FlpError> {
                SumVec::new(F::int(p.max), p.len, p.chunk)
            }
            fn meas(_: &Params, m: &[u128]) -> Vec<F::Integer> {
                m.iter().map(|x| F::int(*x)).collect()
            }
            fn result(r: &Vec<F::Integer>) -> ResultVec {
                ResultVec::Ints(r.iter().map(|x| F::to_u128(*x)).collect())
            }
        }
        impl<F: ZField> Kinded for L1BoundSum<F, $S<F, Mul>> {
            fn build(p: &Params) -> Result<Self, FlpError> {
                L1BoundSum::new(F::int(p.max), p.len, p.chunk)
            }
            fn meas(_: &Params, m: &[u128]) -> Vec<F::Integer> {
                m.iter().map(|x| F::int(*x)).collect()
            }
            fn result(r: &Vec<F::Integer>) -> ResultVec {
                ResultVec::Ints(r.iter().map(|x| F::to_u128(*x)).collect())
            }
        }
        impl<F: ZField> Kinded for Histogram<F, $S<F, Mul>> {
            fn build(p: &Params) -> Result<Self, FlpError> {
                Histogram::new(p.len, p.chunk)
            }
            fn meas(_: &Params, m: &[u128]) -> usize {
                m[0] as usize
            }
            fn result(r: &Vec<F::Integer>) -> ResultVec {
                ResultVec::Ints(r.iter().map(|x| F::to_u128(*x)).collect())
            }
        }
        impl<F: ZField> Kinded for MultihotCountVec<F, $S<F, Mul>> {
            fn build(p: &Params) -> Result<Self, FlpError> {
                MultihotCountVec::new(p.len, p.max as usize, p.chunk)
            }
            fn meas(_: &Params, m: &[u128]) -> Vec<bool> {
                m.iter().map(|x| *x != 0).collect()
            }
            fn result(r: &Vec<F::Integer>) -> ResultVec {
                ResultVec::Ints(r.iter().map(|x| F::to_u128(*x)).collect())
            }
        }
    };
}
kinded_vec!(ParallelSum);
kinded_vec!(ParallelSumMultithreaded);

/// A type visitor: called with the concrete library type for a `Params`.
pub trait TypeVisitor {
    fn visit<T: Kinded>(&mut self, ctx: &mut Ctx, p: &Params, typ: T)
    where
        T::Field: ZField;
}

/// Instantiate the library type described by `p` (serial gadgets) and hand it to the visitor.
/// Returns Err if the constructor refused the parameters.
pub fn with_type<V: TypeVisitor>(ctx: &mut Ctx, p: &Params, v: &mut V) -> Result<(), String> {
    with_type_ex(ctx, p, v, false)
}

/// As `with_type`; with `mt` the four chunked circuits are instantiated over the rayon-based
/// `ParallelSumMultithreaded` gadget (the circuits behind the `Prio3*Multithreaded` aliases).
pub fn with_type_ex<V: TypeVisitor>(ctx: &mut Ctx, p: &Params, v: &mut V, mt: bool) -> Result<(), String> {
    macro_rules! go {
        ($t:ty) => {{
            let typ = <$t as Kinded>::build(p).map_err(|e| e.to_string())?;
            v.visit::<$t>(ctx, p, typ);
            Ok(())
        }};
    }
    let f64_ = p.p == P64;
    if mt {
        match (p.kind, f64_) {
            (Kind::SumVec, true) => return go!(SumVec<Field64, ParallelSumMultithreaded<Field64, Mul>>),
            (Kind::SumVec, false) => return go!(SumVec<Field128, ParallelSumMultithreaded<Field128, Mul>>),
            (Kind::Histogram, true) => return go!(Histogram<Field64, ParallelSumMultithreaded<Field64, Mul>>),
            (Kind::Histogram, false) => return go!(Histogram<Field128, ParallelSumMultithreaded<Field128, Mul>>),
            (Kind::Multihot, true) => return go!(MultihotCountVec<Field64, ParallelSumMultithreaded<Field64, Mul>>),
            (Kind::Multihot, false) => return go!(MultihotCountVec<Field128, ParallelSumMultithreaded<Field128, Mul>>),
            (Kind::L1BoundSum, true) => return go!(L1BoundSum<Field64, ParallelSumMultithreaded<Field64, Mul>>),
            (Kind::L1BoundSum, false) => return go!(L1BoundSum<Field128, ParallelSumMultithreaded<Field128, Mul>>),
            _ => {}
        }
    }
    match (p.kind, f64_) {
        (Kind::Count, true) => go!(Count<Field64>),
        (Kind::Count, false) => go!(Count<Field128>),
        (Kind::Sum, true) => go!(Sum<Field64>),
        (Kind::Sum, false) => go!(Sum<Field128>),
        (Kind::Average, true) => go!(Average<Field64>),
        (Kind::Average, false) => go!(Average<Field128>),
        (Kind::SumVec, true) => go!(SumVec<Field64, ParallelSum<Field64, Mul>>),
        (Kind::SumVec, false) => go!(SumVec<Field128, ParallelSum<Field128, Mul>>),
        (Kind::Histogram, true) => go!(Histogram<Field64, ParallelSum<Field64, Mul>>),
        (Kind::Histogram, false) => go!(Histogram<Field128, ParallelSum<Field128, Mul>>),
        (Kind::Multihot, true) => go!(MultihotCountVec<Field64, ParallelSum<Field64, Mul>>),
        (Kind::Multihot, false) => go!(MultihotCountVec<Field128, ParallelSum<Field128, Mul>>),
        (Kind::L1BoundSum, true) => go!(L1BoundSum<Field64, ParallelSum<Field64, Mul>>),
        (Kind::L1BoundSum, false) => go!(L1BoundSum<Field128, ParallelSum<Field128, Mul>>),
    }
}

/// Algorithm ids used by the shipped constructors.
pub fn algorithm_id(k: Kind) -> u32 {
    match k {
        Kind::Count => 1,
        Kind::Sum => 2,
        Kind::SumVec => 3,
        Kind::Histogram => 4,
        Kind::Multihot => 5,
        Kind::L1BoundSum => 7,
        Kind::Average => 0xFFFF0000,
    }
}

#[derive(Clone, Debug, PartialEq, Eq, Hash)]
pub struct VdafCfg {
    pub aggs: u8,
    pub proofs: u8,
    pub alg_id: u32,
    pub hmac_xof: bool,
}

/// A Prio3 visitor: called with the concrete `Prio3<T, P, 32>`.
pub trait Prio3Visitor {
    fn visit<T: Kinded, P: Xof<32>>(&mut self, ctx: &mut Ctx, p: &Params, cfg: &VdafCfg, vdaf: Prio3<T, P, 32>)
    where
        T::Field: ZField;
}

struct Bridge<'a, V: Prio3Visitor> {
    v: &'a mut V,
    cfg: &'a VdafCfg,
    err: Option<String>,
}

impl<V: Prio3Visitor> TypeVisitor for Bridge<'_, V> {
    fn visit<T: Kinded>(&mut self, ctx: &mut Ctx, p: &Params, typ: T)
    where
        T::Field: ZField,
    {
        if self.cfg.hmac_xof {
            match Prio3::<T, XofHmacSha256Aes128, 32>::new(self.cfg.aggs, self.cfg.proofs, self.cfg.alg_id, typ) {
                Ok(vdaf) => self.v.visit(ctx, p, self.cfg, vdaf),
                Err(e) => self.err = Some(e.to_string()),
            }
        } else {
            match Prio3::<T, XofTurboShake128, 32>::new(self.cfg.aggs, self.cfg.proofs, self.cfg.alg_id, typ) {
                Ok(vdaf) => self.v.visit(ctx, p, self.cfg, vdaf),
                Err(e) => self.err = Some(e.to_string()),
            }
        }
    }
}

/// Instantiate `Prio3<T, P, 32>` for (`p`, `cfg`) through the generic public constructor.
pub fn with_prio3<V: Prio3Visitor>(ctx: &mut Ctx, p: &Params, cfg: &VdafCfg, v: &mut V) -> Result<(), String> {
    with_prio3_ex(ctx, p, cfg, v, false)
}

/// As `with_prio3`; with `mt` over the multithreaded gadget (see `with_type_ex`).
pub fn with_prio3_ex<V: Prio3Visitor>(ctx: &mut Ctx, p: &Params, cfg: &VdafCfg, v: &mut V, mt: bool) -> Result<(), String> {
    let mut b = Bridge { v, cfg, err: None };
    with_type_ex(ctx, p, &mut b, mt)?;
    match b.err {
        Some(e) => Err(e),
        None => Ok(()),
    }
}

// ---------------------------------------------------------------------------------------------
// Parameter lattice
// ---------------------------------------------------------------------------------------------

/// Bounds at bit-width edges.
pub fn edge_bounds(p: u128, rng: &mut Rng64, small_only: bool) -> u128 {
    let pbits = bits_of(p);
    let k = if small_only { 1 + rng.below(10) as u32 } else { 1 + rng.below(pbits as u64 - 1) as u32 };
    let base = 1u128 << k;
    let v = match rng.below(10) {
        0 => 1,
        1 => 2,
        2 => 3,
        3 | 4 => base - 1,
        5 => base,
        6 => base + 1,
        7 if !small_only => p - 1,
        8 if !small_only => (1u128 << (pbits - 1)) - 1,
        _ => 1 + rng.u128() % base,
    };
    v.clamp(1, p - 1)
}

/// A random parameter point of the configuration lattice. `budget` bounds the encoded length.
pub fn gen_params(rng: &mut Rng64, kind: Kind, budget: usize) -> Params {
    let p = if rng.chance(2, 5) { P64 } else { P128 };
    let mut pr = Params { kind, max: 1, len: 1, chunk: 1, p };
    match kind {
        Kind::Count => {}
        Kind::Sum | Kind::Average => {
            pr.max = edge_bounds(p, rng, false);
            if kind == Kind::Average && rng.chance(3, 4) {
                pr.max = pr.max.min(u64::MAX as u128);
            }
        }
        Kind::SumVec | Kind::L1BoundSum => {
            let small = rng.chance(3, 4);
            pr.max = edge_bounds(p, rng, small);
            let b = pr.bits();
            let maxlen = (budget / b).max(1);
            pr.len = 1 + rng.usize_below(maxlen.min(64));
            if rng.chance(1, 8) {
                pr.len = maxlen;
            }
        }
        Kind::Histogram => {
            pr.len = 1 + rng.usize_below(budget.min(200));
            if rng.chance(1, 8) {
                pr.len = budget;
            }
        }
        Kind::Multihot => {
            pr.len = 1 + rng.usize_below(budget.min(120));
            pr.max = match rng.below(5) {
                0 => 1,
                1 => pr.len as u128,
                2 => pr.len as u128 + 1 + rng.below(5) as u128,
                _ => 1 + rng.below(pr.len as u64) as u128,
            };
        }
    }
    if kind.has_joint_rand() {
        let n = pr.input_len();
        // chunk lengths around divisors / non-divisors of n
        pr.chunk = match rng.below(9) {
            0 => 1,
            1 => n,
            2 => n + 1 + rng.usize_below(3),
            3 => (n / 2).max(1),
            4 => ((n as f64).sqrt() as usize).max(1),
            5 => ((n as f64).sqrt() as usize + 1).max(1),
            6 => {
                // a divisor
                let mut d = 1 + rng.usize_below(n);
                while n % d != 0 {
                    d -= 1;
                }
                d
            }
            7 => prio::vdaf::prio3::optimal_chunk_length(n),
            _ => 1 + rng.usize_below(n),
        };
    }
    pr
}

pub fn gen_cfg(rng: &mut Rng64, kind: Kind, heavy_ok: bool) -> VdafCfg {
    let aggs = match rng.below(12) {
        0..=3 => 2,
        4 | 5 => 3,
        6 => 4,
        7 => 5,
        8 => 6 + rng.below(12) as u8,
        9 if heavy_ok => 254,
        10 if heavy_ok => 17 + rng.below(200) as u8,
        _ => 2 + rng.below(4) as u8,
    };
    let proofs = match rng.below(10) {
        0..=5 => 1,
        6 | 7 => 2,
        8 => 3,
        _ if heavy_ok => 2 + rng.below(254) as u8,
        _ => 4,
    };
    VdafCfg { aggs, proofs, alg_id: algorithm_id(kind), hmac_xof: rng.chance(1, 6) }
}

pub fn ints_to_field<F: ZField>(v: &[u128]) -> Vec<F> {
    v.iter().map(|x| F::elem(*x)).collect()
}

pub fn field_to_ints<F: ZField>(v: &[F]) -> Vec<u128> {
    v.iter().map(|x| x.val()).collect()
}

#[allow(dead_code)]
pub fn field_encoded_size<F: FieldElement>() -> usize {
    F::ENCODED_SIZE
}

#[allow(dead_code)]
pub fn modulus_of<F: FieldElementWithInteger>() -> F::Integer {
    F::modulus()
}
