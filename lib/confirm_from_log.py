#!/usr/bin/env python3
"""Re-evaluate a confirm log whose baseline verdict was spoiled by a grep artefact (test names containing
'error'); stores the seeded change if the three recorded facts hold."""
import json, os, re, shutil, sys
log = sys.argv[1]
txt = open(log).read()
res = json.loads(txt[:txt.index("\n}\n") + 3])
pid, v = res["property"], res["variant"]
base = res.get("baseline_with_patch", "")
ok_base = "FAILED" not in base and res.get("baseline_passed_count", 0) >= 181
ok = res.get("demo_without_patch_passes") and res.get("demo_with_patch_fails") and ok_base
print(pid, v, "confirmed" if ok else "NOT confirmed", res.get("baseline_passed_count"))
if ok:
    src, dst = f"/tmp/mut-{pid}-out/{v}", f"/verif/seeded/{pid}-{v}"
    os.makedirs(dst, exist_ok=True)
    for f in ("patch.diff", "demo.rs", "RUN.md"):
        if os.path.exists(f"{src}/{f}"):
            shutil.copy(f"{src}/{f}", f"{dst}/{f}")
    try:
        meta = json.load(open(f"{src}/meta.json"))
    except Exception:
        meta = {}
    meta["breaks_property"] = pid
    name = f"demo_{v.lower()}"
    meta["confirmed_by_lead"] = {"worktree": "/tmp/confirm (scratch git worktree of /repo, removed afterwards)",
        "ran": [f"cargo test --offline --features experimental,multithreaded,test-util,verif-hooks --test {name}   (unchanged tree: pass; with patch: FAIL)",
                "cargo test --workspace --offline   (with patch: %d passed, 0 failed)" % res["baseline_passed_count"]]}
    json.dump(meta, open(f"{dst}/meta.json", "w"), indent=1)
