#!/usr/bin/env python3
"""Independently confirm a seeded change produced by a mutant-authoring sub-agent.

  lib/confirm_seeded.py <ID> <A|B>

In the scratch worktree /tmp/confirm (never /repo): (1) demo passes on the unchanged tree, (2) with the
patch applied the crate compiles, the demo FAILS and (3) the existing suite (`cargo test --workspace
--offline`) still passes. On success the change is stored as /verif/seeded/<ID>-<v>/ (patch.diff, demo.rs,
RUN.md, meta.json with what was run).
"""
import json, os, re, shutil, subprocess, sys

W = "/tmp/confirm"
FEATS = "experimental,multithreaded,test-util,verif-hooks"


def sh(cmd, timeout=3600):
    p = subprocess.run(cmd, shell=True, cwd=W, text=True, capture_output=True, timeout=timeout,
                       env=dict(os.environ, CARGO_NET_OFFLINE="true"))
    return p.returncode, p.stdout + p.stderr


def reset():
    sh("git checkout -q -- . && git clean -fdq src tests examples benches")
    sh("git checkout -q --detach $(git -C /repo rev-parse HEAD)")


def main():
    pid, v = sys.argv[1], sys.argv[2]
    src = os.environ.get("MUT_PREFIX", "/tmp/mut") + f"-{pid}-out/{v}"
    name = f"demo_{v.lower()}"
    res = {"property": pid, "variant": v}
    reset()
    shutil.copy(f"{src}/demo.rs", f"{W}/tests/{name}.rs")
    rc, out = sh(f"cargo test --offline --features {FEATS} --test {name} 2>&1 | tail -40")
    res["demo_without_patch_passes"] = ("test result: ok" in out and "FAILED" not in out)
    res["demo_without_patch_tail"] = out[-600:]
    rc, out = sh(f"git apply {src}/patch.diff")
    if rc != 0:
        res["error"] = "patch does not apply: " + out[-300:]
        print(json.dumps(res, indent=1)); reset(); return 1
    rc, out = sh(f"cargo test --offline --features {FEATS} --test {name} 2>&1 | tail -60")
    compiled = "error[" not in out and "could not compile" not in out
    res["compiles_with_patch"] = compiled
    res["demo_with_patch_fails"] = compiled and ("FAILED" in out or "panicked" in out)
    res["demo_with_patch_tail"] = out[-800:]
    os.remove(f"{W}/tests/{name}.rs")
    rc, out = sh("cargo test --workspace --offline 2>&1 | grep -E '^test result|FAILED|^error' | head -20")
    oks = re.findall(r"test result: ok\. (\d+) passed", out)
    res["baseline_with_patch"] = out.strip()
    res["baseline_with_patch_passes"] = ("FAILED" not in out and not out.startswith("error") and "\nerror" not in out and sum(int(x) for x in oks) >= 181)
    res["baseline_passed_count"] = sum(int(x) for x in oks)
    ok = res["demo_without_patch_passes"] and res["demo_with_patch_fails"] and res["baseline_with_patch_passes"]
    res["confirmed"] = ok
    reset()
    if ok:
        dst = f"/verif/seeded/{pid}-{v}"
        os.makedirs(dst, exist_ok=True)
        for f in ("patch.diff", "demo.rs", "RUN.md"):
            if os.path.exists(f"{src}/{f}"):
                shutil.copy(f"{src}/{f}", f"{dst}/{f}")
        meta = {}
        if os.path.exists(f"{src}/meta.json"):
            try:
                meta = json.load(open(f"{src}/meta.json"))
            except Exception:
                meta = {"raw": open(f"{src}/meta.json").read()[:2000]}
        meta["breaks_property"] = pid
        meta["confirmed_by_lead"] = {
            "worktree": "/tmp/confirm (scratch git worktree of /repo, removed afterwards)",
            "ran": [f"cargo test --offline --features {FEATS} --test {name}   (unchanged tree: pass; with patch: FAIL)",
                    "cargo test --workspace --offline   (with patch: %d passed, 0 failed)" % res["baseline_passed_count"]],
        }
        json.dump(meta, open(f"{dst}/meta.json", "w"), indent=1)
    print(json.dumps({k: res[k] for k in res if not k.endswith("_tail")}, indent=1))
    if not ok:
        print(res.get("demo_without_patch_tail", "")[-400:]); print(res.get("demo_with_patch_tail", "")[-400:])
    return 0 if ok else 1


if __name__ == "__main__":
    sys.exit(main())
