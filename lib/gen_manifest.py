#!/usr/bin/env python3
"""Regenerates MANIFEST.json from lib/props.py (single source of truth for per-property text)."""
import json, os, sys
ROOT = os.path.dirname(os.path.dirname(os.path.abspath(__file__)))
sys.path.insert(0, os.path.join(ROOT, "lib"))
import props

ALL = [f"C{i:02d}" for i in range(1, 21)]
hooks_commits = subprocess = None
import subprocess
commits = subprocess.run(["git", "-C", "/repo", "log", "--format=%H %s"], capture_output=True, text=True).stdout.splitlines()
hook_commits = [c.split()[0] for c in commits if c.split(" ", 1)[1].startswith("verif-hooks:")]

checks = []
for pid in ALL:
    if pid not in props.PROPS:
        continue
    m = props.PROPS[pid]
    checks.append({
        "property_id": pid,
        "quick_cmd": f"./check {pid} --tier quick",
        "thorough_cmd": f"./check {pid} --tier thorough",
        "evidence_file": f"/verif/evidence/{pid}.json",
        "replay_cmd_template": f"./check {pid} --replay {{path}}",
        "engine": "pv",
        "level_claimed": {"category": m["level"], "text": m["level_text"], "design_ref": f"DESIGN.md section 3, {pid}"},
        "level_note": m["level_note"],
        "technique": m["technique"],
    })
na = [{"property_id": pid, "reason": props.NOT_APPLICABLE.get(pid, "check not built yet in this session; no claim is made")}
      for pid in ALL if pid not in props.PROPS]
manifest = {
    "version": 1,
    "setup_cmd": "cd /verif/harness && CARGO_NET_OFFLINE=true cargo build --release --offline && cd miri_c14 && CARGO_NET_OFFLINE=true MIRIFLAGS='-Zmiri-tree-borrows -Zmiri-ignore-leaks -Zmiri-disable-isolation -Zmiri-permissive-provenance' cargo +nightly miri run --offline -- 2 2",
    "hooks": {
        "guard": "cargo feature `verif-hooks` of the prio crate (off by default)",
        "enable": "the harness crate /verif/harness path-depends on /repo with features experimental,test-util,multithreaded,verif-hooks; every check starts with `cargo build --release --offline --bin pv_cXX` there (one driver binary per property, so a check rebuilds /repo and only its own driver)",
        "baseline_off_cmd": "cd /repo && cargo test --workspace --no-fail-fast --offline",
        "source_commits": hook_commits,
        "add_only": True,
    },
    "engines": [{
        "name": "pv", "path": "/verif/harness",
        "serves_properties": [c["property_id"] for c in checks],
        "kind_free_text": "Rust harness (one driver binary pv_cXX per property, sharing common/zoo/proto modules) executing the real crate under hostile workloads with monitors: reference-model oracles, panic/overflow monitor, allocation monitor, event-log history checkers; sharded over 16 processes by /verif/check which merges observations, matches known findings and writes evidence",
    }],
    "checks": checks,
    "notes": "Runtime monitoring only: every verdict is 'held on the executions observed'. Exit 2 + INCONCLUSIVE line = harness could not decide (build failure against a modified tree, watchdog, too few events).",
    "not_applicable": na,
}
with open(os.path.join(ROOT, "MANIFEST.json"), "w") as f:
    json.dump(manifest, f, indent=1)
print("wrote MANIFEST.json with", len(checks), "checks;", len(na), "not claimed")
