"""Per-property metadata for the orchestrator: evidence level, the rule that defines a
distinct non-trivial case, assumptions, watchdogs, anti-vacuity minima and auxiliary steps."""
import json
import os
import subprocess
import time

COMMON_ASSUMPTIONS = [
    "the harness is built in release mode with overflow-checks and debug-assertions ON, so wraps and unreduced field elements are observable panics",
    "verdict covers only the executions produced by this run (runtime monitoring, not proof)",
]

PROPS = {
    "C01": {
        "level": "exploration",
        "rule": "random points of the Prio3 configuration lattice (type x field x bound at bit-width edges x length x chunk length "
                "dividing or not x aggregators 2..254 x proofs 1..255 x XOF) each with a batch of in-range measurements incl. extremes, "
                "sharded with OS or scripted randomness (all-zero/all-one/random), every message through its wire encoding; "
                "distinct = distinct (type parameters, aggregators, proofs, XOF) configurations that completed a batch",
        "assumptions": COMMON_ASSUMPTIONS + ["reference aggregate computed in plain u128 arithmetic mod p",
                                             "context strings stay within the XOFs' documented dst length limits"],
        "min_counters": {"reports_verified": 1000, "configs_partial_last_chunk": 10, "configs_helper_index_ge_3": 10, "configs_multiproof": 10},
        "technique": "runtime monitoring of honest end-to-end executions against a plain-integer reference aggregate, with a wire interposer on every message and a panic/overflow monitor",
        "level_text": "Thousands (quick) to hundreds of thousands (thorough) of distinct Prio3 instantiations are executed end to end on batches of valid measurements; each report must be accepted by all aggregators, per-report output shares must sum to the plain contribution, and the unsharded aggregate must equal the plain aggregate mod p; encode_measurement is compared with a spec-level reference encoding.",
        "level_note": "Held on the sampled configuration points only. Trusted: harness reference models (zoo.rs).",
    },
    "C02": {
        "level": "fault_enumeration",
        "rule": "per sampled Prio3 configuration: (a) every family of INVALID encoded inputs (non-bits at first/last/chunk-boundary/padding-adjacent positions, wrong weight, "
                "inconsistent claimed weight/norm, norm above bound, affine-only near misses) shared by a harness re-implementation of sharing around the public Flp::prove "
                "(self-checked byte-for-byte against shard_with_random on valid inputs); (b) single and double alterations of wire messages after honest sharding "
                "(leader measurement/proof elements, seeds, blinds, joint-rand parts, verifier-share elements, verifier message, element swaps, share substitution, truncation, "
                "trailing bytes) and wrong verifier-share counts; distinct = distinct configurations with an accepted honest control",
        "assumptions": COMMON_ASSUMPTIONS + ["an unexpected acceptance is reported only after the same artefact is accepted under 3 further independent verification keys (soundness flukes are counted, not reported)",
                                             "a tamper operation that leaves the bytes unchanged is not a fault"],
        "min_counters": {"forge_selfcheck_ok": 100, "honest_controls_accepted": 100, "invalid_input_rejected": 500, "tampered_rejected": 2000, "wrong_share_count_rejected": 100},
        "technique": "fault injection at a wire interposer plus forged reports over invalid inputs, with an acceptance monitor (all aggregators Finish) confirmed under fresh keys",
        "level_text": "Tens of thousands (quick) to millions (thorough) of adversarial reports over all seven types, 2-7 aggregators and 1-3 proofs are executed against the real aggregator code; every one must be refused at some stage (decode, verify_init, decide, joint-randomness check, count check); rejections are tallied per stage and per tamper class.",
        "level_note": "Sampled adversary: a weakened check is seen only if the workload contains a forgery it lets through. Trusted: harness validity predicates (zoo.rs) and the forge (self-checked).",
    },
    "C05": {
        "level": "exploration",
        "rule": "per sampled circuit configuration (7 circuits x 2 fields x bound/length/chunk lattice): completeness under uniform/zero/one/repeated/root-of-unity joint+prove randomness "
                "and uniform/zero/repeated query randomness on canonical and non-canonical valid inputs; soundness on invalid families under uniform randomness (3/3 confirmation); "
                "linearity over 1..254 random or degenerate additive shares; exact proof/verifier lengths; every argument shortened/lengthened/emptied must give Err; "
                "every (or 52 sampled) wire-domain root(s) of unity as gadget query randomness must be refused and odd powers of the doubled-domain root accepted; distinct = distinct circuit parameter points",
        "assumptions": COMMON_ASSUMPTIONS + ["soundness is asserted only under uniformly random joint/query randomness (range checks are vacuous by design under degenerate joint randomness)"],
        "min_counters": {"complete_accepts": 1000, "linearity_checks": 1000, "invalid_rejected": 1000, "wrong_length_refused": 1000, "root_query_refused": 1000, "next_domain_root_accepted": 200},
        "technique": "runtime monitoring of Flp::prove/query/decide against harness validity predicates, with metamorphic share-linearity and argument-length fault injection",
        "level_text": "Each sampled circuit instance is driven through prove/query/decide on valid and invalid inputs with adversarial randomness shapes, additive sharings into up to 254 shares, all wrong-length argument variants and all wire-domain roots of unity as query randomness.",
        "level_note": "Sampled parameter points; soundness checked operationally (3 independent draws).",
    },
    "C09": {
        "level": "exploration",
        "rule": "Part A: every operand pair of every listed (word size, prime) instantiation of the generic Montgomery "
                "code is compared with integer arithmetic (exhaustive for 8/16-bit words; distinct = instantiations); "
                "Part B: (field, lattice index pair) cases of the deployed fields compared with BigUint arithmetic; a case is "
                "non-trivial when it is a distinct (field, operand-pair) from the limb-boundary lattice or a distinct exhaustive instantiation",
        "assumptions": COMMON_ASSUMPTIONS + [
            "scaled-down split-word primes satisfy p(p+2^(W/2)) <= 2^(2W), the precondition the deployed 128-bit prime satisfies",
            "BigUint / u128 arithmetic is the trusted reference",
        ],
        "min_counters": {"partA_pairs_compared": 1_000_000},
        "technique": "runtime differential monitoring against a big-integer reference model; exhaustive operand enumeration of the same generic code at 8/16-bit word sizes (hook H1); debug_assert reducedness monitor",
        "level_text": "Every operand pair of the generic Montgomery add/sub/neg/mul/inv/pow code is executed and compared with integer arithmetic at 8- and 16-bit word sizes (53 u8 primes, several u16 primes, single- and split-word variants); the deployed 32/64/128/255-bit fields are executed on a limb-boundary lattice cross product and random pairs and compared with BigUint; conversions, equality/hash/encoding consistency, conditional select/negate and root orders are checked on the same runs.",
        "level_note": "Trusted: BigUint/u128 arithmetic, the const-fn parameter derivation of the scaled-down instantiations (self-checked by residue(montgomery(a)) == a). Deployed-prime coverage is a lattice plus sampling, not exhaustive.",
    },
    "C14": {
        "level": "exploration",
        "rule": "gadget level: ParallelSumMultithreaded<F, SpyMul>::eval_poly vs ParallelSum<F, Mul>::eval_poly on explicit rayon pools of 1..32 threads, chunk counts "
                "{1, 2, threads-1, threads, 10*threads, 200/1000, random} x calls x input styles, each repeated with seeded jitter inside the fold body; the chunk->fold-state partition "
                "of every call is OBSERVED through the spy; Prio3 level: SumVec/Histogram/MultihotCountVec multithreaded vs serial transcripts (public share, input shares, verifier shares, "
                "verifier message, output shares, result) byte-compared per pool size; distinct = distinct (configuration, observed partition) pairs + Prio3 configurations; "
                "aux: Miri (tree borrows, data-race detector, seeded schedules) on a tiny gadget workload, ThreadSanitizer in the thorough tier",
        "assumptions": COMMON_ASSUMPTIONS + ["the crate has no unsafe code: race detectors are a backstop; the deciding oracle is byte equality across the observed partitions",
                                             "schedules are those rayon produced on this machine under load/jitter plus Miri's seeded schedules"],
        "min_counters": {"configs_more_chunks_than_threads": 8, "gadget_distinct_partitions_total": 50, "prio3_transcript_messages_compared": 1000},
        "min_ratios": [("configs_more_chunks_than_threads_with_ge2_partitions", "configs_more_chunks_than_threads", 0.1)],
        "aux": True,
        "technique": "differential runtime monitoring (multithreaded vs serial bytes) with a spy gadget observing the work-stealing partition, stress/jitter across thread-pool shapes; Miri data-race detection with seeded schedules; TSan (thorough)",
        "level_text": "Every multithreaded evaluation is compared byte for byte with the serial one while a harness-side spy inner gadget records which fold state and thread evaluated which chunk, so the evidence shows how many distinct work-stealing partitions were actually exercised per configuration; the same gadget code runs under Miri with many scheduler seeds and (thorough) ThreadSanitizer.",
        "level_note": "Only schedules produced in these runs are covered; anti-vacuity requires >= 2 distinct partitions in at least a tenth of the configurations with more chunks than threads and >= 50 distinct partitions in total (a coarser but still correct work partition in the library must not make the check inconclusive).",
    },
    "C17": {
        "level": "exploration",
        "rule": "pairs of distinct measurements (incl. extremes) sharded with identical scripted randomness, nonce and context on sampled Prio3 configurations "
                "(all types, 2..254 aggregators, 1-2 proofs, both XOFs) and Poplar1 instances (bits 1..1024, inputs differing in first/last/all bits): byte comparison of every helper share, "
                "helper joint-rand parts, leader blind, and element-wise leader-share difference vs difference of the reference encodings; distinct = configurations x randomness",
        "assumptions": COMMON_ASSUMPTIONS + ["reference encoding from zoo.rs (cross-checked against encode_measurement in C01)"],
        "min_counters": {"helper_share_bytes_compared": 100000, "leader_elements_checked": 100000, "poplar1_share_bytes_compared": 100000, "poplar1_pairs_with_differing_public_share": 100},
        "technique": "metamorphic byte-level comparison of shard_with_random outputs across measurements with fixed randomness",
        "level_text": "For every sampled configuration all ordered pairs of a measurement set are sharded with the same tape; any byte of a helper share / helper joint-rand part / Poplar1 input share that differs, or a leader mask that differs, is a violation.",
        "level_note": "Covers the sampled configurations and measurement pairs only.",
    },
    "C18": {
        "level": "fault_enumeration",
        "rule": "per sampled Prio3 configuration: every single mismatch and sampled pairs of {ctx (all/one aggregator), nonce (all/one), verify key (one), helper ids swapped, "
                "algorithm id, num_proofs, aggregator count}; per Poplar1 instance (bits 2/16/64): ctx, nonce, key mismatches and swapped shares; positive control per configuration; "
                "the stated exception (consistent nonce substitution, no joint randomness) must reproduce the honest output shares; distinct = configurations with an accepted control",
        "assumptions": COMMON_ASSUMPTIONS + ["an acceptance under mismatch is reported only after 3 further acceptances under fresh keys"],
        "min_counters": {"positive_controls_accepted": 500, "poplar1_positive_controls": 200, "nonce_exception_unchanged_outputs": 50,
                         "mismatch_rejected_CtxAll": 200, "mismatch_rejected_NonceOne": 200, "mismatch_rejected_KeyOne": 200, "mismatch_rejected_AlgId": 200},
        "technique": "fault injection of inconsistent ctx/nonce/key/role/instance arguments into verify_* with an acceptance monitor and positive controls",
        "level_text": "Every mismatch class is executed thousands of times over all types; all must be rejected at some stage, except the stated nonce exception which must reproduce the honest output shares byte for byte.",
        "level_note": "Sampled configurations; mismatch values are single-bit flips, truncations, extensions and fresh random values.",
    },
}

NOT_APPLICABLE = {}


def _load_snippets():
    """Merge per-driver property entries from lib/props_d/*.py (one file per builder)."""
    import glob
    import re
    d = os.path.join(os.path.dirname(os.path.abspath(__file__)), "props_d")
    for f in sorted(glob.glob(os.path.join(d, "*.py"))):
        ns = {"COMMON_ASSUMPTIONS": COMMON_ASSUMPTIONS}
        with open(f) as fh:
            exec(compile(fh.read(), f, "exec"), ns)
        for v in list(ns.values()):
            if isinstance(v, dict) and v and all(isinstance(k, str) and re.fullmatch(r"C\d\d", k) for k in v):
                PROPS.update(v)


_load_snippets()

# Workload elements added while hardening the checks against seeded changes (DESIGN.md 9.5); appended to the
# rule text so that the evidence says what was run.
RULE_ADDENDA = {
    "C02": "; plus, for SumVec, pairs of non-bits (2/5, -1/5) whose range-check terms cancel under equal coefficients, at block- and chunk-period distances; an acceptance that does not reproduce under fresh keys is itself a violation (fields >= 64 bits)",
    "C03": "; one input / candidate prefix in three is backed by storage that does not start at bit 0, and every other aggregation parameter is used as constructed instead of re-decoded",
    "C04": "; plus constant (key-independent) replacements of the round-one sketch messages / shares; an acceptance that does not reproduce under fresh keys is itself a violation",
    "C05": "; wrong-length arguments in twelve shapes (+-1, +-2, emptied, halved, x2, x3, x4, zero-/one-padded, zero-prefixed); SumVec cancel pairs (2/5, -1/5) among the invalid families",
    "C08": "; plus decoding parameters that do not fit together (aggregation parameter at or beyond the instance's bit length)",
    "C10": "; zero-padded short inputs at every length below the size for n <= 32 and around n/2 ... n/8 beyond",
    "C12": "; faults include well-framed messages whose opaque field carries surplus bytes or lost its last byte; half of the spy VDAF's states / shares / messages give no encoded_len hint",
    "C13": "; Poplar1 trees up to 65536 bits (level 65535) for arbitrary and real shares; inputs with non-zero storage offsets",
    "C15": "; certain-outcome sub-calls (uniform below 1, Bernoulli(0/1), exp(-0)) are left out of both traces, the sign/magnitude order is probed per scale and the Gaussian proposal scale per sigma (law-preserving freedoms)",
    "C16": "; verifier shares computed for another number of proofs; Poplar1 reports mixing public / input shares of different bit lengths at every level; aggregator identifiers >= the number of aggregators (incl. values congruent to a valid id mod 2^8/2^16/2^32) must give an error; add_noise_to_agg_share on instances at the domain extremes",
    "C18": "; plus identifiers congruent to the own id mod 2^8/2^16/2^32 (IdAlias), Prio3 over XofFixedKeyAes128 with 16-byte seeds (generic binding matrix), one configuration in eight with several hundred encoded elements; an acceptance that does not reproduce under fresh keys is itself a violation",
    "C20": "; prefixes with non-zero storage offsets",
}
for _pid, _txt in RULE_ADDENDA.items():
    if _pid in PROPS and not PROPS[_pid]["rule"].endswith(_txt):
        PROPS[_pid]["rule"] = PROPS[_pid]["rule"] + _txt


def watchdog(pid, tier):
    """Generous wall-clock watchdog per shard (seconds); firing is inconclusive, not a verdict."""
    w = PROPS[pid].get("watchdog", {"quick": 900, "thorough": 7200})
    return w[tier]


def _miri(seeds, args, env, timeout):
    e = dict(env)
    e["MIRIFLAGS"] = ("-Zmiri-tree-borrows -Zmiri-ignore-leaks -Zmiri-disable-isolation "
                      f"-Zmiri-permissive-provenance -Zmiri-many-seeds={seeds}")
    cwd = os.path.join(os.path.dirname(os.path.dirname(os.path.abspath(__file__))), "harness", "miri_c14")
    t0 = time.time()
    try:
        p = subprocess.run(["cargo", "+nightly", "miri", "run", "--offline", "--"] + args, cwd=cwd, env=e,
                           stdout=subprocess.PIPE, stderr=subprocess.STDOUT, text=True, timeout=timeout)
        out, rc = p.stdout, p.returncode
    except subprocess.TimeoutExpired as ex:
        out, rc = (ex.stdout.decode(errors="replace") if isinstance(ex.stdout, bytes) else (ex.stdout or "")), "timeout"
    return out, rc, time.time() - t0


def run_aux(pid, tier, seed, env):
    """Auxiliary sanitizer steps. C14: Miri (always), ThreadSanitizer (thorough, best effort)."""
    if pid != "C14":
        return None
    res = {"violations": [], "inconclusive": [], "evidence": {}}
    base = (seed * 1000) % 100000
    plans = [("0..8" if tier == "quick" else "0..24", ["5", "3"])]
    if tier == "thorough":
        plans += [("0..12", ["2", "4"]), ("0..12", ["6", "2"]), ("0..8", ["1", "2"]), ("0..8", ["4", "3", "prio3"])]
    ok_total = 0
    for seeds, args in plans:
        lo, hi = seeds.split("..")
        seeds = f"{base + int(lo)}..{base + int(hi)}"
        out, rc, wall = _miri(seeds, args, env, 3600)
        oks = sum(1 for l in out.splitlines() if l.startswith("OK "))
        ok_total += oks
        bad = [l for l in out.splitlines() if ("Undefined Behavior" in l or "Data race" in l or "data race" in l or l.startswith("MISMATCH"))]
        if bad:
            cls = "data-race" if any("ace" in b for b in bad) else ("mismatch" if any(b.startswith("MISMATCH") for b in bad) else "undefined-behaviour")
            res["violations"].append({"signature": f"C14|miri|{cls}", "what": f"Miri reported {cls} in the multithreaded gadget workload: {bad[0].strip()[:200]}",
                                      "witness": {"args": args, "seeds": seeds, "log_tail": out[-3000:]}, "count": len(bad), "shard": 0})
        elif rc != 0 or oks == 0:
            res["inconclusive"].append(f"miri run failed (rc={rc}, ok={oks}) args={args}: {out[-400:]!r}")
        res["evidence"].setdefault("miri_runs", []).append({"args": args, "seeds": seeds, "interleavings_ok": oks, "wall_s": round(wall, 1)})
    res["evidence"]["miri_interleavings_ok"] = ok_total
    if tier == "thorough":
        cwd = os.path.join(os.path.dirname(os.path.dirname(os.path.abspath(__file__))), "harness", "miri_c14")
        e = dict(env)
        e["RUSTFLAGS"] = "-Zsanitizer=thread"
        e["CARGO_TARGET_DIR"] = "target-tsan"
        t0 = time.time()
        try:
            b = subprocess.run(["cargo", "+nightly", "build", "-Zbuild-std", "--target", "x86_64-unknown-linux-gnu", "--offline"],
                               cwd=cwd, env=e, stdout=subprocess.PIPE, stderr=subprocess.STDOUT, text=True, timeout=2400)
            built = b.returncode == 0
        except subprocess.TimeoutExpired:
            built = False
        tsan = {"built": built, "build_s": round(time.time() - t0, 1), "runs": 0, "reports": 0}
        if built:
            exe = os.path.join(cwd, "target-tsan", "x86_64-unknown-linux-gnu", "debug", "miri_c14")
            e2 = dict(env)
            e2["TSAN_OPTIONS"] = "halt_on_error=0 exitcode=66"
            for (c, t, extra) in [(40, 8, "prio3"), (7, 16, ""), (3, 2, ""), (200, 4, "prio3"), (16, 16, "")] * 4:
                r = subprocess.run([exe, str(c), str(t)] + ([extra] if extra else []), env=e2, stdout=subprocess.PIPE, stderr=subprocess.STDOUT, text=True, timeout=600)
                tsan["runs"] += 1
                n = r.stdout.count("WARNING: ThreadSanitizer")
                tsan["reports"] += n
                if n or "MISMATCH" in r.stdout:
                    res["violations"].append({"signature": "C14|tsan|" + ("data-race" if n else "mismatch"), "what": "ThreadSanitizer report / mismatch in the multithreaded gadget workload",
                                              "witness": {"args": [c, t, extra], "log_tail": r.stdout[-3000:]}, "count": max(n, 1), "shard": 0})
        res["evidence"]["tsan"] = tsan
    return res
