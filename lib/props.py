"""Per-property metadata for the orchestrator: evidence level, the rule that defines a
distinct non-trivial case, assumptions, watchdogs, anti-vacuity minima and auxiliary steps."""
import json
import os
import subprocess
import time

COMMON_ASSUMPTIONS = [
    "the harness is built in release mode with overflow-checks and debug-assertions ON, so wraps and unreduced field elements are observable panics",
    "verdict covers only the executions produced by this run (runtime monitoring, not proof)",
]

PROPS = {
    "C01": {
        "level": "exploration",
        "rule": "random points of the Prio3 configuration lattice (type x field x bound at bit-width edges x length x chunk length "
                "dividing or not x aggregators 2..254 x proofs 1..255 x XOF) each with a batch of in-range measurements incl. extremes, "
                "sharded with OS or scripted randomness (all-zero/all-one/random), every message through its wire encoding; "
                "distinct = distinct (type parameters, aggregators, proofs, XOF) configurations that completed a batch",
        "assumptions": COMMON_ASSUMPTIONS + ["reference aggregate computed in plain u128 arithmetic mod p",
                                             "context strings stay within the XOFs' documented dst length limits"],
        "min_counters": {"reports_verified": 1000, "configs_partial_last_chunk": 10, "configs_helper_index_ge_3": 10, "configs_multiproof": 10},
        "technique": "runtime monitoring of honest end-to-end executions against a plain-integer reference aggregate, with a wire interposer on every message and a panic/overflow monitor",
        "level_text": "Thousands (quick) to hundreds of thousands (thorough) of distinct Prio3 instantiations are executed end to end on batches of valid measurements; each report must be accepted by all aggregators, per-report output shares must sum to the plain contribution, and the unsharded aggregate must equal the plain aggregate mod p; encode_measurement is compared with a spec-level reference encoding.",
        "level_note": "Held on the sampled configuration points only. Trusted: harness reference models (zoo.rs).",
    },
    "C09": {
        "level": "exploration",
        "rule": "Part A: every operand pair of every listed (word size, prime) instantiation of the generic Montgomery "
                "code is compared with integer arithmetic (exhaustive for 8/16-bit words; distinct = instantiations); "
                "Part B: (field, lattice index pair) cases of the deployed fields compared with BigUint arithmetic; a case is "
                "non-trivial when it is a distinct (field, operand-pair) from the limb-boundary lattice or a distinct exhaustive instantiation",
        "assumptions": COMMON_ASSUMPTIONS + [
            "scaled-down split-word primes satisfy p(p+2^(W/2)) <= 2^(2W), the precondition the deployed 128-bit prime satisfies",
            "BigUint / u128 arithmetic is the trusted reference",
        ],
        "min_counters": {"partA_pairs_compared": 1_000_000},
        "technique": "runtime differential monitoring against a big-integer reference model; exhaustive operand enumeration of the same generic code at 8/16-bit word sizes (hook H1); debug_assert reducedness monitor",
        "level_text": "Every operand pair of the generic Montgomery add/sub/neg/mul/inv/pow code is executed and compared with integer arithmetic at 8- and 16-bit word sizes (53 u8 primes, several u16 primes, single- and split-word variants); the deployed 32/64/128/255-bit fields are executed on a limb-boundary lattice cross product and random pairs and compared with BigUint; conversions, equality/hash/encoding consistency, conditional select/negate and root orders are checked on the same runs.",
        "level_note": "Trusted: BigUint/u128 arithmetic, the const-fn parameter derivation of the scaled-down instantiations (self-checked by residue(montgomery(a)) == a). Deployed-prime coverage is a lattice plus sampling, not exhaustive.",
    },
}

NOT_APPLICABLE = {}


def watchdog(pid, tier):
    """Generous wall-clock watchdog per shard (seconds); firing is inconclusive, not a verdict."""
    w = PROPS[pid].get("watchdog", {"quick": 900, "thorough": 7200})
    return w[tier]


def run_aux(pid, tier, seed, env):
    return None
