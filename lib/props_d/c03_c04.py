# Entries for /verif/lib/props.py (PROPS dict). COMMON_ASSUMPTIONS is the list defined there.
# Drivers: c03.rs, c04.rs, shared helper poplar_util.rs (add `mod poplar_util; mod c03; mod c04;`
# and the two dispatch arms to harness/src/main.rs).

PROPS_POPLAR = {
    "C03": {
        "level": "exploration",
        "rule": "honest Poplar1 (TurboSHAKE128) executions: a batch of 1..64 inputs (with duplicates and shared long prefixes) is sharded with OS or "
                "scripted randomness (all-zero / all-one / random tapes), then verified by both aggregators at aggregation parameters drawn from: "
                "every non-empty candidate set for bits <= 3 (exhaustive, 294 sets); bits in {1,2,3,5,8,13,64,256,1024} x levels {0,1,mid,bits-2,bits-1,random} x "
                "candidate-set shapes {on-path, siblings along the path, dense random up to 2000, full level, long common prefix, divergence at every depth, "
                "divergences around the FIFO-ring eviction boundary}; sequences of admissible parameters on the same reports (every level once / skipping levels / "
                "shrinking sets); deep instances bits in {21846,21847,21848,21900,65535,65536} at levels {0,1,mid,21844..21848,30000,43690,43691,65533..65535,bits-2,bits-1}; "
                "full heavy-hitters runs. distinct = distinct (bits, level, shape, candidate-set size, batch size) tuples whose verification + aggregation completed "
                "and were compared, plus distinct completed heavy-hitters runs",
        "assumptions": COMMON_ASSUMPTIONS + [
            "reference = plain prefix counting / exact heavy hitters over the plain inputs (poplar_util.rs)",
            "candidate sets are sorted lexicographically as equal-length bit strings (the spec's order)",
            "cache_sim_* counters are a harness-side simulation of a FIFO ring of capacity len(prefixes), used only as anti-vacuity evidence",
            "public share, verifier shares/messages, output and aggregate shares and the aggregation parameter cross their wire encodings with encoded_len() checked; "
            "input shares cross the wire too but their advertised encoded_len() is left to C07",
        ],
        "min_counters": {
            "verifications": 20000,
            "aggregations_checked": 1500,
            "exhaustive_small_sets_checked": 294,
            "deep_params_completed": 30,
            "verifications_inner_level_ge_21846": 10,
            "verifications_leaf_level_ge_21846": 5,
            "hh_runs_completed": 8,
            "sequences_completed": 50,
            "params_ge_1000_prefixes": 4,
            "params_with_cache_hits_and_evictions": 100,
            "reports_os_random": 500,
            "batches_with_duplicates": 50,
            "aggregations_with_count_ge_2": 300,
        },
        "technique": "runtime monitoring of honest end-to-end Poplar1 executions against plain prefix counting / exact heavy hitters, with a wire interposer on every "
                     "message and a panic/overflow monitor; parameter-lattice + adversarially shaped candidate sets + deep levels",
        "level_text": "Tens of thousands (quick) to millions (thorough) of (report, aggregation parameter) verifications are executed on honestly sharded reports; "
                      "every report must be accepted by both aggregators, its two output shares must sum to the indicator vector of its input over the candidate "
                      "prefixes, the unsharded aggregate must equal the plain prefix counts, and complete heavy-hitters runs (thorough: 64 bits, 500 Zipf-distributed "
                      "inputs) must return exactly the strings occurring at least the threshold number of times. Candidate sets for bits <= 3 are enumerated "
                      "completely; deep instances exercise levels up to 65535 including every level class around the 3*level u16 boundary (21845/21846).",
        "level_note": "Held on the sampled instances only (exhaustive only for the 294 candidate sets at bits <= 3, with one batch each). Trusted: plain prefix "
                      "counting in the harness. Cache behaviour inside eval_and_sketch is observed only through results (a wrong hit gives wrong shares) and through "
                      "a simulated ring for anti-vacuity.",
        "watchdog": {"quick": 900, "thorough": 7200},
    },
    "C04": {
        "level": "exploration",
        "rule": "adversarial Poplar1 executions judged by (G) both aggregators Finish => sum of the two output shares over the candidates is all-zero or one-hot "
                "with value 1, and (R) reports built by a listed malicious strategy are rejected whenever the parameter queries an affected candidate; an "
                "unexpected acceptance is re-run under three fresh verification keys and reported only if accepted 4/4. Strategies: IDPF programmed via the "
                "public Idpf::gen with (v,w), v in {0,2,3,1/2,p-1,random}, w = k v / k v + d / k v + v^2 - v, independently per level; correlated-randomness "
                "shares (A,B) consistent, shifted, or re-solved to hide the shift, or derived from a different seed than the one shipped; correction-word seed "
                "replaced / bit-flipped and control bits flipped at a chosen level (multi-candidate garbage); a crafted TWO-point function whose values sum to "
                "(1, k) (correction-word payload re-solved with the public evaluator); single-bit alterations of every region of public share and input shares; "
                "length changes; input shares / IDPF keys swapped; public share or input share spliced from another report; non-adaptive alterations, swaps, "
                "truncations and extensions of sketch shares and sketch messages; API-level state/message variant mismatches. distinct = distinct (strategy, bits, "
                "level, must-reject flag, outcome stage) tuples",
        "assumptions": COMMON_ASSUMPTIONS + [
            "which candidates are affected by a strategy is derived from the sketch algebra r^2(v^2-v) + r(A v + 2 a v - w) + (A a + B + a^2 - b - c) and from the "
            "IDPF control-bit invariant (poplar_util.rs / c04.rs); the derivation is itself monitored: the harness re-implementation of the correlated randomness is "
            "compared byte for byte with shard_with_random in every configuration, honest-by-re-implementation reports must be accepted, and every case the model "
            "calls valid must be accepted (otherwise INCONCLUSIVE)",
            "in-transit alterations of sketch shares/messages are non-adaptive (bit flips, swaps, truncations, extensions); an adversary who replaces BOTH round-two "
            "verifier shares by cancelling values defeats any two-party sketch and is outside the workload",
            "Idpf::gen draws its two keys from OS randomness (the only public generator); witnesses therefore carry the complete public share and input shares",
            "soundness is judged operationally: accepted under 4 independent verification keys",
        ],
        "min_counters": {
            "executions": 100000,
            "must_reject_rejected": 20000,
            "honest_controls_accepted": 50000,
            "reimplementation_controls_accepted": 200,
            "model_crosschecks": 10000,
            "model_predicted_accept_and_accepted": 10000,
            "two_point_reports_built": 1000,
            "two-point-sum-to-one:rejected": 1000,
            "variant_mismatch_rejected": 1000,
            "programmed:value-not-0-1:rejected": 1000,
            "programmed:authenticator-mismatch:rejected": 500,
            "programmed:corr-inconsistent:rejected": 1000,
            "corr-seed-mismatch:rejected": 300,
            "cw-seed:rejected": 1000,
            "cw-control-bits:rejected": 1000,
            "cw_cases_with_ge_2_affected_candidates": 1000,
            "ps-byte:seed:rejected": 100,
            "ps-byte:ctrl:rejected": 100,
            "ps-byte:payload:rejected": 100,
            "is-byte:idpf_key:rejected": 100,
            "is-byte:corr_seed:rejected": 100,
            "is-byte:corr_inner:rejected": 20,
            "is-byte:corr_leaf:rejected": 100,
            "input-shares-swapped:rejected": 100,
            "public-share-spliced:rejected": 100,
        },
        "technique": "runtime monitoring of adversarial executions: a malicious client assembled from the public API (Idpf::gen / Idpf::eval, XOF, wire layouts), a tamper "
                     "hook on every message in transit, decoded output shares checked against the 0/one-hot predicate, 3-fresh-keys confirmation of acceptances, "
                     "honest positive control in every configuration",
        "level_text": "Hundreds of thousands (quick) to millions (thorough) of malicious or tampered reports (bits 1..33 quick, up to 256 thorough; up to 8 candidates) are "
                      "pushed through both aggregators with every message crossing its wire encoding. Whenever both aggregators finish, the harness decodes the two output "
                      "shares and requires their sum to be all-zero or one-hot with value one; reports whose programmed value is not 0/1, whose authenticator does not "
                      "match, whose correlated randomness is inconsistent, or which carry more than one non-zero candidate (including a crafted pair summing to (1,k)) "
                      "must be rejected whenever an affected candidate is queried, and are allowed to pass only where the algebra says the queried candidates are untouched.",
        "level_note": "Held on the generated strategies only; negligible soundness error is treated operationally (accepted 4/4 under independent keys). Adaptive in-transit "
                      "forgery of both round-two shares is excluded (inherent to the protocol). Trusted: the harness field models (BigUint) and the sketch algebra above, both "
                      "self-checked against the library on honest and crafted-but-valid reports in the same run.",
        "watchdog": {"quick": 900, "thorough": 7200},
    },
}
