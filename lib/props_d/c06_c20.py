# Entries for /verif/lib/props.py (PROPS dict). COMMON_ASSUMPTIONS is the list defined there.
PROPS_SNIPPET = {
    "C06": {
        "level": "exploration",
        "rule": "a case = one freshly generated IDPF key pair (value-type configuration x bit length x input x programmed values x "
                "ctx x nonce; keys drawn by Idpf::gen from OS randomness). Exhaustive part: for every bit length 1..6 and every "
                "value-type configuration, EVERY input x EVERY prefix of every length x both parties is evaluated with NoCache "
                "(sum = programmed value on the path, all-zero off it) and the same prefixes are re-evaluated in a shuffled order "
                "through a shared cache of a rotating kind; for bits = 3 every ordered triple of prefixes x every cache kind x both "
                "parties. Sampled part: bits in 7..16, 64, 320, 2048 with on-path prefixes and off-path prefixes diverging at every "
                "depth (sampled depths at 2048 bits, quick tier), and random histories of 5-200 evaluations sharing one cache. "
                "distinct = distinct (part, value-type configuration, bits, input, cache kind) cases whose monitors all ran "
                "(exhaustive over inputs/prefixes/triples; values, ctx, nonce and keys are sampled)",
        "assumptions": COMMON_ASSUMPTIONS + [
            "each cache instance is used with one key / public share / party only (documented contract of IdpfCache)",
            "harness caches never lie: they return exactly what was inserted under exactly that key, or nothing (they only lose entries)",
            "Idpf::gen draws the two key seeds from OS randomness; witnesses therefore carry the encoded public share and both keys",
            "context strings stay within the XOFs' documented dst length limits",
        ],
        "min_counters": {"cache_hits": 1000, "cache_evictions_observed": 100, "cache_misses": 1000,
                         "exh_inputs_fully_enumerated": 100, "offpath_zero_checks": 1000, "onpath_value_checks": 1000,
                         "triple_histories": 1000, "random_histories": 16,
                         "hits_HashMapCache": 100, "hits_RingBufferCache": 100, "lost_RingBufferCache": 100,
                         "hits_harness-lossy": 100, "hits_harness-forgetful": 100, "hits_harness-lru": 100,
                         "hit_at_depth_65-320": 10, "hit_at_depth_321+": 10},
        "technique": "runtime monitoring of Idpf::gen/eval: reconstruction oracle (sum of the two parties' output shares vs the programmed "
                     "point function) and differential cache-transparency monitor (byte comparison against a NoCache evaluation) with a spy "
                     "wrapper around every cache that records gets/inserts/hits/misses/lost entries",
        "level_text": "For bit lengths 1..6 every input, every prefix of every length and both parties are executed for each value-type "
                      "configuration (Poplar1IdpfValue<Field64/Field255>, plain FieldPrio2/Field64/Field128/Field255, a harness vector "
                      "type with run-time length) and the merged shares are compared with the programmed value / zero; longer inputs "
                      "(7..16, 64, 320, 2048 bits) are sampled with off-path prefixes diverging at every depth. Every evaluation made "
                      "through a cache (NoCache, HashMapCache, RingBufferCache of capacity 0,1,2,3,5,bits,1000, and lossy / forgetful / "
                      "bounded-LRU harness caches) after an arbitrary history is compared byte for byte with the NoCache evaluation.",
        "level_note": "Exhaustive only over inputs x prefixes x parties (bits <= 6) and over ordered prefix triples x cache kinds (bits = 3); "
                      "programmed values, ctx, nonce and key seeds are sampled. Trusted: the harness caches and the encodings of field "
                      "elements (zero encodes as zero bytes).",
    },
    "C20": {
        "level": "exploration",
        "rule": "exhaustive: bits=2: all 18 parameters x every history (arbitrary list, with repetition) of length 0..4 (2 000 718 (cur, prev) pairs); "
                "bits=3: all 273 parameters x every history of length 0..2 (20 421 219 pairs), length 3 (and 4 at thorough) sampled; "
                "every list of 0..4 prefixes (repetition, any order) over the alphabet {empty prefix, all prefixes of 1..3 bits} offered to "
                "try_from_prefixes (54 241 lists) plus lists at the 65535/65536/65537-bit length limit; the decoder on every header "
                "(level in {0,1,2,3,7,8,15,0xFFFE,0xFFFF} x count in {0,1,2,3,4,2^32-1}) x every body of 0..3 bytes, every string of <= 2 bytes, "
                "and canonical encodings / near misses at 8192-byte prefixes (exception: while the decoder panics on level 0xFFFF before reading "
                "the body, the quick tier samples bodies of >= 2 bytes for those six header rows); Prio3 (7 instantiations) and Prio2 with "
                "|prev| = 0..5. Sampled: admissible chains and disturbed histories of length <= 12 over 2..65 bits (some up to 65 536 bits) with "
                "targeted final parameters (extends-last, equal level, lower level, one candidate off, none extends, extends only the first / an "
                "older parameter, arbitrary). distinct = distinct (cur, prev) pairs with non-empty history that the rule declares valid + distinct "
                "rejected constructor lists + distinct accepted encodings + distinct deep cases + (VDAF, |prev|) points of the single-use rule",
        "assumptions": COMMON_ASSUMPTIONS + [
            "oracle = the rule of the statement over Vec<Vec<bool>>: valid iff prev is empty, or level(cur) > level(last(prev)) and every candidate of cur has a candidate of last(prev) as a prefix",
            "histories need not be admissible chains: the statement's rule (like the library) only looks at the most recent parameter, so it is asserted on arbitrary lists too; violations carry the class admissible-history / arbitrary-history in the signature",
            "the limit of 2^32 - 1 prefixes per parameter is not exercised (needs > 2^32 prefixes in memory); a count field of 2^32 - 1 is exercised in the decoder",
            "level 0xFFFF: a decoder panic on an encoding that must be rejected anyway is recorded (counter decode_level_0xffff_panics, owned by C08), a panic on the canonical encoding of a conforming 65536-bit list is a C20 violation",
        ],
        "min_counters": {"exh_bits2_pairs": 2_000_718, "exh_bits3_pairs": 20_421_219, "valid_decisions": 100_000, "invalid_decisions": 1_000_000,
                         "ctor_accepted": 100, "ctor_rejected": 50_000, "decode_accepted": 1_000_000, "decode_rejected": 100_000_000,
                         "unit_valid_decisions": 8, "unit_invalid_decisions": 40,
                         "deep_extends-last_valid": 100, "deep_equal-level_invalid": 100, "deep_one-candidate-off_invalid": 100,
                         "deep_extends-first-only_invalid": 100, "deep_extends-older-only_invalid": 100},
        "technique": "runtime monitoring of is_agg_param_valid / try_from_prefixes / get_decoded against an independent reference rule, reference list predicate and reference decoder; exhaustive enumeration of small history, list and byte-string spaces; panic/overflow monitor",
        "level_text": "Every (parameter, history) pair over 2-bit inputs with histories up to length 4 and over 3-bit inputs with histories up to length 2 is executed and compared with the admissibility rule of the statement; every short prefix list is offered to the constructor and every short encoding to the decoder and the accept/reject decision, the decoded content and the re-encoding are compared with a reference; longer histories and bit lengths are sampled with mutations aimed at first-vs-last, any-vs-all and equal-level mistakes; Prio3/Prio2 accept only the first use.",
        "level_note": "Exhaustive for the finite spaces named in the rule; sampled beyond. Trusted: the 8-line reference rule, the reference decoder/encoder in c20.rs.",
    },
}
