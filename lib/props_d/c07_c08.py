# Entries for /verif/lib/props.py (PROPS dict). COMMON_ASSUMPTIONS is the list defined there.

PROPS_SNIPPET = {
    "C07": {
        "level": "exploration",
        "rule": "registry of (message type x decoding parameter) entries (codec_registry.rs: field elements, seeds, integers, "
                "u8/u16/u32-prefixed and fixed-length vectors, every Prio3 / Poplar1 / Prio2 / dummy message incl. verify states of every "
                "round, IdpfPublicShare for 4 value-type pairs, PingPongMessage, PingPongContinuation); per entry: honest values obtained by "
                "running shard/verify_init/verify_next/aggregate/ping-pong, then bit/byte/multi-byte/truncate/extend/splice mutations of "
                "honest encodings and random + layout-conforming random strings of exactly the honest length; every ACCEPTED string must "
                "re-encode to itself; targeted non-canonical forms must be rejected with positive controls next to them; "
                "distinct = distinct (entry, accepted byte string) pairs that went through the canonicity check + distinct "
                "(entry, non-canonical form, position) rejections",
        "assumptions": COMMON_ASSUMPTIONS + [
            "decoding parameters are instances a server would hold (bits >= 1, constructor-accepted Prio3/Prio2 instances); the decoding "
            "parameter of a value is the one it was produced under (same instance, same aggregator id, same round's state)",
            "equality of values is judged by the type's own PartialEq where one exists AND by byte equality of re-encodings",
            "field moduli used for the targeted forms are written from the field definitions (2^32-2^20+1, 2^64-2^32+1, 2^66*4611686018427387897+1, 2^255-19)",
            "Idpf::gen, Prio2::shard and dummy::shard draw OS randomness (no scripted entry point); every witness carries the concrete bytes",
        ],
        "min_counters": {
            "honest_values": 5000,
            "accepted_arbitrary": 100_000,
            "rejected_arbitrary": 20_000,
            "encoded_len_some_checked": 100_000,
            "targeted_rejected_field=p": 100,
            "targeted_rejected_field=p+1": 100,
            "targeted_rejected_field=2^k-1": 100,
            "targeted_rejected_field255-top-bit": 20,
            "targeted_rejected_padding-control-bit": 20,
            "targeted_rejected_trailing-prefix-bits": 4,
            "targeted_rejected_unsorted-prefixes": 1,
            "targeted_rejected_duplicate-prefixes": 1,
            "targeted_rejected_unknown-tag": 20,
            "targeted_rejected_trailing-byte": 400,
            "targeted_positive_controls_accepted": 200,
        },
        "technique": "runtime monitoring of the codec on honest protocol traffic and on mutated / random / targeted byte strings: "
                     "differential check encode-decode-encode, advertised vs produced length, the types' own PartialEq, panic monitor",
        "level_text": "About 230 (message type, decoding parameter) entries are exercised with values really produced by the protocol and with "
                      "~2 million (quick) to ~600 million (thorough) mutated and random strings, about three quarters of which are accepted; for every "
                      "accepted string the re-encoding must be byte-identical, the advertised length exact and the round trip equal. Field "
                      "elements equal to p, p+1, 2^k-1, the Field255 top bit, padding control bits, trailing prefix bits, unsorted and "
                      "duplicate prefixes, unknown tags and one trailing byte must be rejected at the first, last and a random position of "
                      "every message that contains such a slot.",
        "level_note": "Held on the sampled values only. Not covered: instances outside the registry, zero-size vector items, bits = 0. "
                      "Trusted: the layout descriptions in codec_registry.rs (self-checked against the honest encodings' lengths).",
    },
    "C08": {
        "level": "exploration",
        "rule": "same registry as C07; per entry: EVERY byte string of length <= 2 (<= 3 for the entries with tags / length prefixes), every "
                "header field (tag, length prefix, count, level) at {0,1,max-1,max, honest, honest+-1, remaining length, remaining+1, 0xff, 0x100, max/2, max/2+1} in all "
                "combinations with empty/short/exact/exact-1/long/8 KiB bodies, every truncation and single-byte mutations at every offset "
                "(all 255 values for the first 8 offsets) of honest encodings, random / exact-length / layout-conforming / half-honest strings; "
                "distinct = distinct (entry, workload, outcome class) triples observed (outcome = ok or the CodecError variant)",
        "assumptions": COMMON_ASSUMPTIONS + [
            "allocation bound: peak extra live bytes during one decode <= 256 * max(len(input), nominal_len(param)) + 64 KiB, where nominal_len is the honest encoded length for that decoding parameter (decoders may pre-allocate what the instance dictates)",
            "allocations are observed by the harness' global allocator on the decoding thread; requests above 4 GiB are refused, which aborts the shard (reported through the --trace re-run)",
            "registry decoding parameters are instances a server would hold (bits >= 1); the degenerate but constructible parameter bits = 0 is probed separately (argument class bits=0, c08.rs PROBE_DEGENERATE_PARAMS); zero-size item types of the vector helpers are excluded (decode_*_items::<(), ()> never terminates: DESIGN section 7 #10, separate triage)",
            "a hang is a shard that exceeds the watchdog and whose --trace re-run exceeds it again; a single decode above 30 s on a < 64 KiB input is reported in-process",
        ],
        "abort_is_violation": True,
        "hang_is_violation": True,
        "watchdog": {"quick": 600, "thorough": 5400},
        "min_counters": {
            "decodes": 100_000_000,
            "decodes_accepted": 1_000_000,
            "entries_exhaustive_len_le_2": 200,
            "entries_exhaustive_len_3": 20,
            "header_extreme_cases": 20_000,
            "truncation_cases": 50_000,
            "byte_mutation_cases": 1_000_000,
            "honest_encodings_accepted(positive control)": 1000,
        },
        "technique": "runtime monitoring of every decoder under a panic/overflow monitor, an allocation monitor (global allocator with per-call peak) and a "
                     "time monitor; exhaustive enumeration of short inputs and of header-field extremes; abort/hang attribution via per-case trace lines",
        "level_text": "Every decoder of the registry is called on all byte strings of length <= 2 (<= 3 where the encoding starts with tags or "
                      "length prefixes), on all combinations of extreme header values with bodies of several lengths, on every truncation and on "
                      "single-byte mutations at every offset of honest encodings, and on random strings: ~0.5 billion (quick) / ~5 billion (thorough) decodes, each under the "
                      "panic, allocation and time monitors.",
        "level_note": "Exhaustive only for the short-string sub-spaces named in the rule; everything else is generative. "
                      "The exhaustive 3-byte enumeration is traced per 256-block, all other cases per input.",
    },
}
