# Entries for /verif/lib/props.py (PROPS dict). COMMON_ASSUMPTIONS is the list defined there.
PROPS_SNIPPET = {
    "C10": {
        "level": "exploration",
        "rule": "a non-trivial case is a distinct (routine group, field, size 2^k, basis|sampled) cell whose comparison ran: "
                "transforms (ntt / ntt_set_s / ntt_inv / get_* / ntt_inv_finish), nth_root_powers, poly_eval_lagrange_batched "
                "(+ poly_interpret_eval), extend_values_to_power_of_2, double_evaluations, poly_mul_lagrange; "
                "'basis' cells compare the routine on EVERY unit vector c*e_j of that size (every pair of unit vectors for the "
                "bilinear product, every partial length k = 0..n for the extension, every interpolation node and every node of "
                "the doubled domain as evaluation point for n <= 256), 'sampled' cells compare unit vectors completely and dense "
                "random vectors at sampled output positions",
        "assumptions": COMMON_ASSUMPTIONS + [
            "oracle = direct evaluation at powers of root(log n) and textbook Lagrange interpolation, computed with the field types' own + - * inv (field arithmetic itself is C09's subject); root(l) is checked to be a principal 2^l-th root with root(l+1)^2 = root(l), otherwise the shard is inconclusive",
            "routines are reached through the feature-gated public wrappers prio::verif_hooks::{ntt, polynomial} (hook H2), which forward verbatim",
            "domain: sizes 1..2^20 (2^19 for the shifted transform and for doubling), input vectors of length <= size (shorter inputs are zero-padded by the code and by its callers); size 0, inputs longer than the size, and the documented assert! preconditions of the crate-private Lagrange helpers (non-power-of-two / unequal lengths, empty batch) are outside the property and never asserted",
            "'size and capacity violations are reported as errors' is asserted for ntt, ntt_set_s, ntt_inv, get_ntt, get_ntt_inv (non-power-of-two, 2^20+1, 2^21, 2^22, shifted at 2^20, output shorter than size, absurd sizes up to usize::MAX with a small output slice) and for double_evaluations / poly_mul_lagrange output-length and capacity checks; get_ntt/get_ntt_inv are not probed with sizes whose allocation alone would fail",
        ],
        "min_counters": {
            "transform_basis_vectors": 6000,
            "ntt_vectors_compared": 6000,
            "ntt_set_s_vectors_compared": 6000,
            "ntt_inv_roundtrips": 12000,
            "ntt_short_input_cases": 100,
            "nth_root_powers_sizes": 63,
            "lagrange_eval_points_node": 1500,
            "lagrange_eval_points_doubled-node": 1500,
            "lagrange_eval_points_other": 300,
            "lagrange_eval_polys": 400000,
            "poly_interpret_eval_cases": 3000,
            "extend_partial_length_cases_proper": 800,
            "double_evaluations_vectors_compared": 6000,
            "poly_mul_pairs_compared": 60000,
            "size_violations_refused": 500,
            "capacity_boundary_controls_ok": 9,
        },
        "technique": "runtime differential monitoring of the crate-private NTT / Lagrange routines (hook H2) against direct evaluation and O(n^2) Lagrange interpolation; because the maps are linear (bilinear for the product) a complete unit-vector basis is enumerated per size; panic monitor on every call; error-path probing at the size/capacity boundaries",
        "level_text": "For FieldPrio2, Field64 and Field128: every unit vector (coefficient 1 and a random coefficient) of every power-of-two size up to 2^9 (quick) / 2^11 (thorough) goes through ntt, ntt_set_s, ntt_inv (direct formula and both round trips), get_ntt, get_ntt_inv and ntt+ntt_inv_finish and is compared entry by entry with root^(ij); sizes up to 2^20 are covered with unit vectors (complete comparison) and dense vectors (sampled output positions, full round trips). nth_root_powers is compared for all 21 sizes. poly_eval_lagrange_batched is run on all unit vectors in batches of 1..8 and on dense batches at every interpolation node, every node of the doubled domain and other points for n <= 2^8/2^9, sampled up to 2^14/2^20; extend_values_to_power_of_2 for every partial length k = 0..n with all k unit vectors for n <= 2^7/2^8 (sampled k to 2^10/2^12); double_evaluations on all unit vectors for n <= 2^9/2^10 and poly_mul_lagrange on all pairs of unit vectors for n <= 2^7/2^9, sampled to 2^14/2^19. Size and capacity violations must come back as Err.",
        "level_note": "exhaustive=true refers to the unit-vector bases of the sizes listed in observed_sets.basis_exhaustive_bounds (a linear map is determined by its values on a basis); evaluation points, dense vectors and sizes above those bounds are sampled. Trusted: the field types' arithmetic (C09), the harness oracles (closed-form barycentric denominators are cross-checked against the O(n^2) product for n <= 128 in every run).",
    },
    "C11": {
        "level": "exploration",
        "rule": "a non-trivial case is (a) a distinct (XOF, number of dst parts, number of binder parts, driving style) splitting "
                "shape compared with the canonical single-part / single-read execution, (b) a distinct (XOF, case) whose stream was "
                "read with all 1225 (a, b) read-size pairs a + b <= 48 or with a long random read-size sequence, (c) a distinct "
                "(field, plan family, rejected chunk positions, end position) scripted rejection-sampling plan that was executed "
                "through into_field_vec, IdpfValue::generate and Poplar1IdpfValue::generate",
        "assumptions": COMMON_ASSUMPTIONS + [
            "reference = spec-level rejection sampling (next ENCODED_SIZE bytes little-endian, clear bits above the modulus bit length, discard if >= p) over BigUint, applied to the very bytes served to / produced by the library",
            "element values are observed through the fields' canonical little-endian encoding (C07/C09 monitor that encoding)",
            "next_u32 / next_u64 on a seed stream are reads of 4 / 8 stream bytes taken little-endian (the rand_core convention implemented by next_word_via_fill)",
            "dst stays within the documented limits (<= 255 bytes for the HMAC XOF, <= 600 here for the others)",
            "XofFixedKeyAes128Key::new(dst, binder).with_seed(seed) is documented as a factory for the same XOF and is required to equal XofFixedKeyAes128 on the same (seed, dst, binder); SeedStreamTurboShake128::from_seed is documented as XofTurboShake128 with empty dst and binder",
            "Prng is crate-private and is reached through the public IntoFieldVec::into_field_vec, which accepts any Rng (a scripted one here)",
        ],
        "min_counters": dict(
            [("stream_comparisons", 45000), ("read_pair_comparisons", 40000), ("read_sequence_comparisons", 300),
             ("into_seed_comparisons", 600), ("splittings_with_empty_parts", 1000),
             ("scripted_samplings", 15000), ("prng_buffer_refills_observed", 5000),
             ("rejections_consumed_generate_path", 50000), ("try_from_random_rejections", 500),
             ("standard_uniform_samplings", 200), ("real_stream_samplings", 500)]
            + [(f"rej_{f}_{c}", 200)
               for f in ("FieldPrio2", "Field64", "Field128", "Field255")
               for c in ("stream_start", "first_buffer_interior", "last_slot_before_refill",
                         "first_slot_after_refill", "later_buffer_interior")]
        ),
        "technique": "metamorphic runtime monitoring of the seed streams (same seed / concatenated dst / concatenated binder under different splittings, clones and read-size sequences must give identical bytes) plus differential monitoring of field sampling against a spec-level rejection-sampling model, with a scripted Rng that places rejected chunks at every position of the Prng look-ahead buffer and records the bytes pulled",
        "level_text": "XofTurboShake128, XofFixedKeyAes128 (Xof::init and the XofFixedKeyAes128Key factory), XofHmacSha256Aes128, SeedStreamAes128 and SeedStreamTurboShake128::from_seed: dst split into 0..5 parts and binder fed in 0..6 updates (empty parts, clone in the middle, seed_stream helper), reads with all (a, b), a + b <= 48, followed by a third read, random sequences of 0..70-byte reads up to 4 KiB, coarse reads up to 20 KiB, next_u32/next_u64 mixed in; into_seed against the stream prefix. Field sampling for FieldPrio2, Field64, Field128, Field255: scripted streams with rejected chunks (exactly p, p+1, all-ones, random >= p, top-bit variants for Field255; accepted edge chunks p-1, 0, 1 and values that are < p only after masking) at every chunk position 0..70 singly, doubly (distances 1, 2, 31, 32, 33) and in runs of 3..100 (incl. whole buffers rejected), random rejection patterns, output lengths 0..100, through into_field_vec (Prng), IdpfValue::generate, Poplar1IdpfValue::generate, StandardUniform and try_from_random; real XOF streams through into_field_vec against the reference applied to a one-shot read of the same stream.",
        "level_note": "Metamorphic part: relates executions of the same implementation to each other (what the property states); it does not compare against independent XOF test vectors. Trusted: BigUint, the canonical encodings of field elements. The 32-element buffer size of Prng is observed (prng_fill_sizes), not assumed.",
    },
}
