# Entry for /verif/lib/props.py (PROPS dict). Driver: c12.rs + spy_vdaf.rs
# (main.rs: `mod c12; mod spy_vdaf;` and dispatch arm `"C12" => c12::run(&mut ctx),`).
PROPS_C12 = {
    "C12": {
        "level": "exploration",
        "rule": "one evaluation = one complete leader/helper exchange driven through leader_initialized / helper_initialized / "
                "leader_continued / helper_continued / PingPongContinuation::evaluate with every PingPongMessage and every persisted "
                "PingPongContinuation crossing its wire encoding; an exchange is a distinct non-trivial case when its "
                "(VDAF family, configuration [rounds 1..6, filler size, key/nonce/ctx/agg-param/input-share draw], fault plan "
                "[delivery point x fault: earlier message j / re-typing variant / type byte / truncation length / (offset, xor mask) / "
                "empty payload / trailing byte], crash plan) tuple is new. Single faults are enumerated at every delivery point and "
                "every byte position for the spy VDAF with 1..4 rounds, the dummy VDAF with 1..6 rounds, Prio3Count / Prio3SumVec / "
                "Prio3Histogram and Poplar1 (inner and leaf level); pairs of faults are enumerated for 1..3 rounds over class "
                "representatives (quick) and additionally over every byte position (thorough); plans of depth 1..3 are sampled for 1..6 rounds",
        "assumptions": COMMON_ASSUMPTIONS + [
            "the spy VDAF (harness/src/spy_vdaf.rs: round-, session- and aggregator-bound, checksummed objects; order-sensitive combiner; "
            "transcript-digest output share) is a correct instrument; 'any aggregator implementation' is represented by it, Prio3, Poplar1 and dummy::Vdaf",
            "reference = a direct broadcast execution of the same VDAF value (verify_init x2, verifier_shares_to_message([leader, helper]), "
            "verify_next x2 per round) plus a 60-line sequential model of draft-irtf-cfrg-vdaf-18 section 5.7.1 for message kinds and final states",
            "refusal is demanded for messages that do not decode, decode to another kind than expected, are earlier messages of the exchange, or "
            "have an empty payload; a corruption that leaves a decodable message of the expected kind is demanded to be refused only for VDAFs "
            "whose objects are self-authenticating (spy) or empty (dummy): Prio3/Poplar1 decide themselves what they make of altered payload "
            "(the Poplar1 leader ignores two of the three sketch elements by specification) and those outcomes are only counted",
            "a panic on a faulty delivery is counted (fault_path_panics) and noted, not judged here (C08/C16 judge panics); a panic on an honest path is a violation",
            "a continuation that evaluates to Finished is documented as non-encodable: its refusal to encode is counted, not reported",
        ],
        "min_counters": {
            "exchanges": 20000,
            "exchanges_spy": 10000,
            "exchanges_dummy": 2000,
            "exchanges_prio3-count": 50,
            "exchanges_prio3-sumvec": 100,
            "exchanges_prio3-histogram": 100,
            "exchanges_poplar1-inner": 100,
            "exchanges_poplar1-leaf": 100,
            "honest_R5": 10,
            "honest_R6": 10,
            "finish_sent_by_helper": 1000,
            "finish_sent_by_leader": 1000,
            "history_outputs_equal_broadcast": 20000,
            "combiner_calls_in_aggregator_order": 20000,
            "fault_pairs": 10000,
            "faults_refused": 30000,
            "faults_replay": 300,
            "faults_reflected": 500,
            "faults_retype": 3000,
            "faults_tagbyte": 3000,
            "faults_truncate": 5000,
            "faults_corrupt": 5000,
            "faults_empty_payload": 500,
            "faults_trailing": 1000,
            "refused_by_message_codec": 10000,
            "refused_by_helper_initialized": 2000,
            "refused_by_leader_continued": 2000,
            "refused_by_helper_continued": 2000,
            "refused_by_evaluate_helper": 10,
            "refusal_reason_PeerMessageMismatch": 3000,
            "crash_points": 5000,
            "crash_points_leader": 2000,
            "crash_points_helper": 2000,
            "crash_evals": 10000,
            "crash_point_evals_0": 1000,
            "crash_point_evals_3": 1000,
            "continuations_reloaded": 5000,
            "resumed_from_reloaded_continuation": 1000,
            "crash_points_after_completion": 3000,
            "finished_continuations_refuse_encode": 1000,
        },
        "technique": "runtime monitoring of the public ping-pong routines with an instrumented order-/round-sensitive spy VDAF "
                     "(append-only call log), a wire interposer on every message and continuation, an offline history checker "
                     "(sequential model of the spec's state machine + direct broadcast execution as reference), exhaustive "
                     "single/pair fault injection at every delivery point and crash/reload injection at every continuation point",
        "level_text": "About 36 000 (quick) / 2.9 million (thorough) complete exchanges are executed. Fault-free exchanges (spy VDAF with 1..6 "
                      "rounds, dummy VDAF with 1..6 rounds, Prio3Count, Prio3SumVec, Prio3Histogram, Poplar1 inner/leaf) must produce exactly the "
                      "(sender, kind) sequence and final states of the specified state machine, messages whose payloads are the verifier "
                      "messages/shares of a direct broadcast execution, the same output shares as that execution, and (spy) exactly one "
                      "combiner call per round by the specified party with [leader, helper] shares of that round. Every single fault at every "
                      "delivery point (earlier/reflected message, re-typed, type byte, truncation at every length, corruption at every offset, "
                      "empty payload, trailing byte) for 1..4 rounds and every pair for 1..3 rounds must be refused by the codec, the receiving "
                      "routine or evaluate without an output share, leave both parties' stored states unchanged, and the exchange must then still "
                      "complete identically. At every continuation point the continuation is encoded, decoded with its proper parameter and "
                      "evaluated 0..3 times (optionally resuming from the reloaded result), and once more after the exchange completed; every "
                      "evaluation must equal the original state, outbound message bytes and output share.",
        "level_note": "Held for the executed exchanges only: fault plans are exhaustive up to depth 1 (rounds <= 4) / depth 2 (rounds <= 3) for the "
                      "drawn configurations and sampled beyond (depth <= 3, rounds <= 6); Prio3 has one round and Poplar1 two, so multi-round "
                      "behaviour rests on the spy and dummy VDAFs. Trusted: spy_vdaf.rs, the sequential model and the broadcast runner in c12.rs.",
    },
}
