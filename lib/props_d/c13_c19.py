# Entries for /verif/lib/props.py (PROPS dict). COMMON_ASSUMPTIONS is the list defined there.

PROPS_SNIPPET = {
    "C13": {
        "level": "exploration",
        "rule": "a case is one multiset of 0-60 output shares per aggregator of one instance (Prio3 Count/Sum/Average/SumVec/Histogram/"
                "MultihotCountVec/L1BoundSum over Field64/Field128 with 2-5 aggregators, Prio2, Poplar1 at an inner or the leaf level), taken "
                "from REAL verified reports (40 %) or arbitrary field vectors with edge elements 0, 1, p-1, p-2 (60 %), aggregated per aggregator "
                "along >= 20 trees (reversed / shuffled single passes, left-deep accumulate, left/right-deep and balanced merges of leaves built by "
                "From / init+accumulate / aggregate([x]), random partitions into 1..8 batches whose aggregates cross the wire and are merged in "
                "random order and orientation, an empty aggregate merged in at a random position and orientation - at EVERY position when the "
                "multiset has <= 10 shares -, random binary trees) plus 12-18 mismatched merge/accumulate calls (length -1, +1, 2len+3, empty, "
                "other level kind with equal and different length; both directions); distinct = distinct (instance, source, size, single-pass "
                "aggregate) multisets",
        "assumptions": COMMON_ASSUMPTIONS + [
            "the reference aggregate is the element-wise sum mod p of the ENCODED output shares (little-endian integers; p = the field's prime), computed in u128 / BigUint",
            "output and aggregate shares are compared through their encodings (byte-identical), aggregate results through their Debug rendering",
            "mismatched operands are built with the public constructors (OutputShare::from(Vec<F>), AggregateShare::from(Vec<F>), Poplar1FieldVec::{Inner,Leaf})",
        ],
        "min_counters": {"multisets_real": 2000, "real_reports_verified": 20000, "trees_identical": 200000, "empty_aggregates_merged": 50000,
                         "mismatches_refused_unchanged": 50000, "mismatch_other-kind-same-len": 3000, "single_pass_equals_reference_sum": 10000,
                         "multisets_Poplar1/inner": 500, "multisets_Poplar1/leaf": 500, "multisets_Prio2": 500, "unshard_identical": 3000},
        "technique": "runtime differential monitoring: every aggregation tree over the same multiset of output shares is executed on the real "
                     "Aggregatable / Aggregator / Collector implementations and compared byte-for-byte with the single pass and with an "
                     "independent element-wise reference sum; refused operations are monitored for accumulator mutation (encoding before/after) and panics",
        "level_text": "Tens of thousands (quick) to a million (thorough) multisets of output shares - from verified Prio3, Prio2 and Poplar1 (inner and "
                      "leaf level) reports and from arbitrary field vectors - are aggregated along at least twenty different orders, groupings and "
                      "batchings per aggregator; every tree must reproduce the single-pass aggregate share byte for byte, the single pass must equal "
                      "the element-wise sum of the encoded shares, aggregate_init must be the all-zero identity, unshard of tree results must equal "
                      "unshard of single-pass results, and every merge/accumulate with an operand of different length or tree-level kind must return "
                      "Err and leave the accumulator's encoding unchanged.",
        "level_note": "Held on the sampled multisets / trees only. Trusted: the harness' element-wise reference sum and the zoo.rs reference models "
                      "that generate measurements. Share lengths up to 300 elements, up to 60 shares; the dummy VDAF and Field255 inner shares are not exercised "
                      "(Poplar1 leaf shares exercise Field255).",
    },
    "C19": {
        "level": "exploration",
        "rule": "honest cases: every 0/1 vector of every length 0..10 (2047 vectors, exhaustive sub-space) and random 0/1 vectors (all-0, all-1, "
                "single-1, ends, random) at lengths {0..11,14..17,30..33,62..65,100,126..129,255..257,511,512,1023,1024}, random lengths < 600 "
                "(quick) / < 3000 (thorough) and lengths hugging powers of two, thorough also {4095,4096,65535,65536,2^19-2,2^19-1}; sharded by the "
                "library (OS randomness; one in four re-shared under a harness-chosen helper seed incl. all-0 / all-1 seeds), verified by both "
                "aggregators under random / all-0 / all-1 verify keys and nonces with every share, state, verifier share, output and aggregate share "
                "round-tripped, aggregated in batches and compared with the plain element-wise sum. Rejection cases: one entry replaced by "
                "2, p-1, p-2 (also 3, (p+1)/2, random) at every position for lengths <= 9 and 15..17 and at first/middle/last/random positions "
                "beyond, two non-binary entries, all-twos; every element of the leader share (data, f0, g0, h0, every h point and any trailing "
                "element) altered by +1, -1 and a random delta for lengths <= 9 and 15..17, segment boundaries and random positions beyond; "
                "helper seed bit flips; each element of each verifier share; leader share one element short/long. Query-point cases: "
                "(key, nonce) pairs found by offline search whose first candidate is a 2n-th root of unity, run at the tightest n. "
                "distinct = distinct (length, measurement) honest reports + distinct (length, position, delta/value) rejection cases + distinct "
                "(key, nonce, n) query-point cases",
        "assumptions": COMMON_ASSUMPTIONS + [
            "an acceptance of an invalid report is a violation only when it repeats under three further fresh independent (verify key, nonce) pairs "
            "(single acceptances are expected with probability <= 2n/p per trial in the 32-bit field and are counted as soundness_flukes) and the "
            "harness' proof-validity model (barycentric evaluation of f*g-h at fixed points) confirms the artefact is not a valid proof",
            "query point model: HMAC-SHA256(verify key, nonce) -> AES-128-CTR (key = tag[..16], iv = tag[16..], 64-bit big-endian counter) -> 4-byte "
            "little-endian words, words >= p discarded; verify_init must behave exactly like verify_init_with_query_rand(first candidate r with r^(2n) != 1); "
            "if it does not, the point actually used is identified (skipped candidates, then algebraic recovery from two probe shares) and only a "
            "2n-th root of unity is reported",
            "Prio2::shard draws OS randomness (no deterministic entry point exists); witnesses therefore carry the full share encodings",
            "measurement entries are < p (u32 values >= p alias small field elements and are outside the statement)",
        ],
        "min_counters": {"exhaustive_binary_vectors": 2047, "honest_accepted": 10000, "batches_summed": 1000, "rejections": 30000,
                         "nonbinary_vectors": 8000, "altered_data": 3000, "altered_f0": 800, "altered_g0": 800, "altered_h0": 800,
                         "altered_h-point": 4000, "altered_helper_seed": 500, "altered_verifier_share": 2000, "positive_controls": 300,
                         "query_point_checks": 20000, "codec_roundtrips": 200000, "rejection_branch_cases": 100,
                         "rejection_branch_cases_primitive_2n_th_root": 30, "rejection_branch_cases_n_th_root": 20},
        "technique": "runtime monitoring of complete Prio2 executions (client, both aggregators, collector) against a plain-integer sum oracle, with a "
                     "wire interposer on every object, fault injection on every share / proof / verifier-share element with 3-fold fresh-key "
                     "confirmation of acceptances, and an independent recomputation of the query-point candidate sequence used both as oracle "
                     "(verify_init == verify_init_with_query_rand(r)) and to steer executions into the root-rejection branch",
        "level_text": "All 2047 0/1 vectors of length <= 10 and tens of thousands (quick) to millions (thorough) of random honest reports over input lengths "
                      "0..1024 (thorough: up to the field capacity 2^19-1) must be accepted by both aggregators and aggregate to their element-wise sum; "
                      "about 10^5 (quick) non-binary vectors and single-element alterations of shares, proofs and verifier shares must be rejected "
                      "(acceptance counts only when confirmed 3/3 under fresh keys); on every honest execution verify_init is compared with "
                      "verify_init_with_query_rand at the independently recomputed first non-root candidate, and several hundred (key, nonce) pairs whose "
                      "first candidate is an interpolation node (primitive 2n-th and n-th roots, n = 2^2 .. 2^19) drive the real verify_init through its "
                      "rejection branch; all encodings are round-tripped on every execution.",
        "level_note": "Held on the executions observed; exhaustive only for the 0/1 vectors of length <= 10 under the keys/nonces drawn. Soundness is "
                      "checked operationally (3/3 confirmation), so a check weakened to reject most but not all forgeries is seen only if the workload "
                      "contains a forgery it lets through. Rejection-branch cases at n < 2^6 need ~2^26/n trials each and appear only in thorough runs; "
                      "two consecutive rejected candidates were not reached (probability (2n/p)^2).",
        "watchdog": {"quick": 900, "thorough": 7200},
    },
}
