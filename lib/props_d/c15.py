# Entry for /verif/lib/props.py  (PROPS["C15"] = ...)
# Source files delivered with it: c15.rs, c15_model.rs, c15_real.rs, c15_explore.rs, c15_noise.rs
# main.rs: `mod c15; mod c15_explore; mod c15_model; mod c15_noise; mod c15_real;` and
#          `"C15" => c15::run(&mut ctx),`
PROPS_C15 = {
    "C15": {
        "level": "exploration",
        "rule": "a case is one real execution of a sampler layer (hook H3 entry point or the public Distribution::sample) under a "
                "distinct (layer, exact rational argument, set of scripted sub-layers, scripted outcome sequence / byte tape); it is "
                "non-trivial when the layer made at least one sub-call (not the degenerate immediate return); for the uniform draw a "
                "case is a distinct bound whose significant tape bits were enumerated completely; for Bernoulli(n/d) a distinct fraction "
                "whose d uniform outcomes were enumerated completely; for noise addition a distinct (type, field, parameters, epsilon)",
        "assumptions": COMMON_ASSUMPTIONS + [
            "layering: each layer is judged assuming the layers below it have their exact laws (each of which is judged separately, down to the uniform draw which is enumerated exhaustively for bounds <= 2^12)",
            "L4-L6 (unbounded rejection loops): 'exact law' is decided as conformance of the real call/argument/result trace to an independent transcription of CKS20 Alg. 1-3 "
            "for every outcome script up to depth D, targeted long and random scripts, plus model-free mass accounting with a reported residual; the step from the algorithms to the law rests on the paper's proofs "
            "(re-checked numerically on the reference alone to < 1e-30)",
            "two law-preserving degrees of freedom are probed, not fixed: the order of the independent sign/magnitude draws in one Laplace iteration, and the Gaussian proposal scale t (any t > 0 used consistently in the acceptance exponent gives the same law)",
            "documented sensitivities are taken from the comments in src/flp/types/dp.rs: SumVec (2^bits-1)*len, Histogram 2, L1BoundSum 2*max_value",
            "the un-intercepted noise sanity run uses the library's own OS-seeded randomness (not reproducible bit-for-bit); its oracle is a 400*(scale+1) bound, far outside any plausible sample (p < e^-300)",
        ],
        "min_counters": {
            "l0_exhaustive_bounds": 4096,
            "l0_first_draw_rejected": 100000,
            "l0_multiword_tapes": 1000,
            "l1_fractions_enumerated": 10000,
            "l1_huge_denominator_cases": 50,
            "taylor_l2_identities": 3,
            "taylor_l3_identities": 3,
            "conf_exhaustive_complete_scripts": 100000,
            "conf_long_scripts": 300,
            "conf_random_scripts": 50000,
            "conf_cases_L2-bernoulli-exp1": 1000,
            "conf_cases_L3-bernoulli-exp": 1000,
            "conf_cases_L4-geometric": 10000,
            "conf_cases_L5-laplace": 10000,
            "conf_cases_L6-gaussian": 10000,
            "conf_cases_via_public_api": 10000,
            "conf_loop_rejections_L4-geometric": 1000,
            "conf_loop_rejections_L5-laplace": 1000,
            "conf_loop_rejections_L6-gaussian": 1000,
            "arg_identities_L5-laplace>L4-geometric": 10000,
            "arg_identities_L5-laplace>L1-bernoulli": 10000,
            "arg_identities_L4-geometric>L0-uniform": 10000,
            "arg_identities_L4-geometric>L2-bernoulli-exp1": 10000,
            "arg_identities_L6-gaussian>L5-laplace": 10000,
            "arg_identities_L6-gaussian>L3-bernoulli-exp": 10000,
            "mass_configs_L4-geometric": 4,
            "mass_configs_L5-laplace": 5,
            "mass_configs_L6-gaussian": 3,
            "mass_outputs_checked": 500,
            "reference_selfcheck_identities": 200,
            "e2e_tape_samples": 20000,
            "e2e_tape_negative_results": 1000,
            "noise_configs": 250,
            "noise_intercepted_calls": 5000,
            "noise_scale_identities": 10000,
            "noise_negative_values_projected": 1000,
            "noise_values_beyond_modulus_projected": 1000,
            "noise_real_runs": 300,
            "noise_independence_pairs_checked": 100,
            "noise_independence_vectors_checked": 100,
        },
        "technique": "runtime monitoring with layered, outcome-driven path exploration of the real samplers through hook H3 (thread-local interceptor + direct entry points): "
                     "exhaustive scripted Rng tapes for the uniform draw; exhaustive uniform outcomes for Bernoulli(n/d); exact rational mass accounting against Taylor partial sums for Bernoulli(exp(-g)); "
                     "trace conformance (calls, exact rational arguments, results) against an independent CKS20 reference model for geometric/Laplace/Gaussian; model-free best-first mass accounting against the closed-form laws with rigorous 192-bit interval enclosures of exp; "
                     "tripwire Rng; tape-level differential through the public API; interception of the Laplace layer under add_noise_to_agg_share",
        "level_text": "Uniform draw: for every bound <= 4096 all values of the significant tape bits are enumerated (each value produced by exactly one accepting assignment, rejected draws consume the next draw), multi-word bounds at word edges with boundary tapes. "
                      "Bernoulli(n/d): all d outcomes for every d <= 4096 (all n for small d, edge and random n otherwise) give exactly n successes; threshold position n-2..n+1 for denominators up to 2^521. "
                      "Bernoulli(exp(-g)): the exact masses of all real paths to depth K sum to the Taylor partial sums as rationals, unexplored mass g^K/K!. "
                      "Geometric / Laplace / Gaussian: for 9 scales (1/3 .. 10^9/7) and several choices of scripted sub-layers, every outcome script up to depth 10 (quick) / 14 (thorough), runs of up to 2000 identical outcomes in each loop and 10^5-10^7 random scripts make the real code (private entry points and public Distribution::sample) "
                      "perform exactly the reference's sub-calls with exactly the reference's rational arguments (geometric(1/scale), Bernoulli(1/2), uniform [0,t), exp(-u/t), exp(-1), floor((u+tv)/s), Laplace(t), (|y|-sigma^2/t)^2/(2 sigma^2)) and return the reference's value, never reading the Rng directly; "
                      "best-first enumeration of the real paths weighted by the sub-layers' exact laws brackets P[y] and must contain the closed-form probability (achieved residuals in the evidence: <1e-13 for geometric/Laplace with small t, ~1e-2 for the Gaussian). "
                      "Public samplers on random byte tapes agree with the reference run on the same tape. "
                      "add_noise_to_agg_share on SumVec/Histogram/L1BoundSum x Field64/Field128 x parameter lattice x epsilon in {1/100,1/3,1,2,100}: exactly one Laplace draw per coordinate in order, scale == documented sensitivity/epsilon as exact rationals, share_after - share_before == noise mod p (floor-mod) for noise 0, +-1, +-(p-1), +-p, +-(p+5), +-2^200, ...; two aggregators with real noise unshard to true aggregate + small integer, and (whenever the collision probability bound (1/(2 scale))^k is below 2^-64) the two calls' noise vectors must differ and no call may put the same value in every coordinate (independence across calls / coordinates).",
        "level_note": "Exactness is decided exactly only for the loop-free layers (uniform draw for bounds <= 2^12, Bernoulli(n/d) for d <= 4096, Bernoulli(exp(-g)) as exact partial sums). For geometric/Laplace/Gaussian it is conformance to CKS20's algorithms on the explored scripts "
                      "(a defect needing one specific long irregular outcome sequence would be missed) plus mass brackets whose residual is reported, for the listed parameters only. No statistical test is used anywhere. "
                      "Trusted: the harness transcription of CKS20 Alg. 1-3 (c15_model.rs; self-checked against the closed forms to <1e-30), num-bigint/num-rational arithmetic, the interval arithmetic. "
                      "Observed, not judged: SumVec<Field128> with max_measurement >= 2^127 refuses to add noise ('bits must be less than 128') before drawing anything; the documented SumVec sensitivity (2^bits-1)*len is conservative when max_measurement is not 2^bits-1.",
    },
}
