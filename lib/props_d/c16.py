PROPS_C16 = {
    "C16": {
        "level": "exploration",
        "rule": "Part A: full cross product of a numeric lattice {0,1,2,3,8,2^k-1,2^k,2^31+-1,2^32+-1,2^62,2^63,MAX-1,MAX} (usize) / {0..3, 2^k edges, p-2, p-1, p, p+1, type MAX} (field integers) over the "
                "parameters of every FLP type constructor (Count, Sum, Average, SumVec, Histogram, MultihotCountVec, L1BoundSum x Field64/Field128), the Prio3 convenience constructors and "
                "Prio3::new (aggregators 0,1,2,3,254,255 x proofs 0,1,255), Prio2::new and the DP constructors; every Ok instance must have non-panicking length accessors, and every "
                "in-domain instance small enough to run must shard+verify+aggregate its minimal and maximal measurement correctly; Part B: out-of-range / wrong-length measurements per type; "
                "Part C: aggregator ids out of range, wrong-role shares, shares built through the public enum with wrong lengths or missing/spurious blinds, messages from another instance, "
                "wrong verifier-share counts, wrong-length output/aggregate shares, Poplar1 with bits 0/1, levels >= bits, reports of another bit length, Prio2 wrong-length shares; "
                "distinct = distinct constructor parameter points + distinct Part C configurations",
        "assumptions": COMMON_ASSUMPTIONS + [
            "domain of each constructor taken from its doc comment; out-of-domain parameters may be accepted or refused, but never panic and never yield an instance whose accessors panic",
            "over-long context strings are outside the property's own enumeration (documented XOF panics)",
            "an Ok from verify_init on a wrong-role or cross-instance share is conforming (the property does not say which operation must fail)",
            "instances whose input+proof length exceeds 3000 elements are not executed (memory budget), only constructed and queried for their lengths",
        ],
        "min_counters": {"constructors_ok": 5000, "constructors_err": 5000, "valid_extremes_worked": 2000, "bad_measurements_refused": 30, "misuse_refused_with_error": 1000, "prio2_new_err": 5},
        "abort_is_violation": True,
        "technique": "argument-lattice enumeration and misuse injection against every Result-returning public entry point, with a panic/overflow monitor, an allocation cap, and end-to-end usability checks of accepted extreme instances",
        "level_text": "About 50 000 constructor calls over the full lattice cross product plus several thousand misuse calls per run; any panic, arithmetic overflow, refused giant allocation, unusable Ok instance, refused valid extreme or accepted out-of-range measurement is a violation identified by call site and failure class.",
        "level_note": "Lattice-based: argument values between lattice points are not tried. Trusted: the documented domains as transcribed in c16.rs::in_domain.",
    },
}
