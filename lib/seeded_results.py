#!/usr/bin/env python3
"""Build /verif/seeded/RESULTS.md from selftest logs.

  lib/seeded_results.py <log> [<log> ...]

Each log is the concatenated output of `lib/selftest.py <seeded>/patch.diff <PROP>` runs, every run
preceded by a line `=== <seeded id>` (optionally `=== <seeded id> tier=<tier>`). Later logs override
earlier ones for the same seeded id. The table lists, per seeded change, the property it breaks, what it
needs to manifest (from meta.json), whether the property's QUICK check reported it, and the first
reported signatures.
"""
import json, os, re, sys

ROOT = os.path.dirname(os.path.dirname(os.path.abspath(__file__)))


def parse(path, res):
    cur = None
    for line in open(path, errors="replace"):
        line = line.rstrip("\n")
        m = re.match(r"=== (\S+)(?: tier=(\S+))?", line)
        if m:
            cur = m.group(1)
            res[cur] = {"tier": m.group(2) or "quick", "verdicts": [], "sigs": []}
            continue
        if cur is None:
            continue
        m = re.match(r"(C\d\d) (detected|missed|inconclusive) rc=(\S+) violations=(\d+)", line)
        if m:
            res[cur]["verdicts"].append((m.group(1), m.group(2), int(m.group(4))))
        elif line.startswith("      C") and len(res[cur]["sigs"]) < 3:
            res[cur]["sigs"].append(line.strip().split(": ")[0])


def main():
    res = {}
    for p in sys.argv[1:]:
        parse(p, res)
    rows = []
    for sid in sorted(os.listdir(os.path.join(ROOT, "seeded"))):
        d = os.path.join(ROOT, "seeded", sid)
        if not os.path.isdir(d):
            continue
        try:
            meta = json.load(open(os.path.join(d, "meta.json")))
        except Exception:
            meta = {}
        needs = str(meta.get("needs_to_manifest", "")).replace("\n", " ").replace("|", "/")
        if len(needs) > 260:
            needs = needs[:257] + "..."
        r = res.get(sid)
        if r is None or not r["verdicts"]:
            verdict, sigs = "not run", ""
        else:
            verdict = "; ".join(f"{p} {v}" + (f" ({n} signatures)" if n else "") + (f" [{r['tier']}]" if r["tier"] != "quick" else "") for p, v, n in r["verdicts"])
            sigs = "<br>".join("`" + s.replace("|", "\\|") + "`" for s in r["sigs"])
        rows.append(f"| {sid} | {meta.get('breaks_property', sid[:3])} | {needs} | {verdict} | {sigs} |")
    out = ["# Seeded changes (written by independent sub-agents) and which check reports them", "",
           "Every change below was confirmed by `lib/confirm_seeded.py` (its demonstration passes on the unchanged tree and fails with the patch;",
           "all 181 baseline tests pass with the patch) and then run through `lib/selftest.py` (the property's check against a patched MIRROR of /repo).",
           "Unless a tier is given in brackets the verdict is that of the QUICK tier at VERIF_SEED=1.", "",
           "| seeded | property | needs, in order to manifest | verdict of the property's check | first signatures reported |", "|---|---|---|---|---|"] + rows
    n_det = sum(1 for r in rows if " detected" in r)
    out += ["", f"{n_det} of {len(rows)} seeded changes are reported by the check of the property they break."]
    open(os.path.join(ROOT, "seeded", "RESULTS.md"), "w").write("\n".join(out) + "\n")
    print(f"wrote seeded/RESULTS.md: {n_det}/{len(rows)} detected")


if __name__ == "__main__":
    main()
