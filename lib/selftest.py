#!/usr/bin/env python3
"""Run checks against a seeded (property-breaking) patch WITHOUT touching /repo.

  lib/selftest.py <patch.diff> <PROP> [<PROP> ...] [--tier quick|thorough] [--seed N]

A persistent scratch mirror (/root/scratch/st) of /repo and of the harness is kept so that cargo only
rebuilds what the patch changed. The mirror is re-synchronised from /repo and /verif on every call,
so nothing of a previous patch survives. Prints one line per property:  <PROP> detected|missed|inconclusive
"""
import os, re, subprocess, sys, json

ST = os.environ.get("SELFTEST_DIR", "/root/scratch/st")


def sh(cmd, **kw):
    return subprocess.run(cmd, shell=True, text=True, capture_output=True, **kw)


def main():
    args = sys.argv[1:]
    tier, seed = "quick", "1"
    if "--tier" in args:
        i = args.index("--tier"); tier = args[i + 1]; del args[i:i + 2]
    if "--seed" in args:
        i = args.index("--seed"); seed = args[i + 1]; del args[i:i + 2]
    patch, props = os.path.abspath(args[0]), args[1:]
    os.makedirs(f"{ST}/verif", exist_ok=True)
    sh(f"rsync -a --delete --exclude target --exclude .git /repo/ {ST}/repo/")
    for strip in (1, 2, 0, 3):
        r = sh(f"patch -p{strip} --dry-run -f < {patch}", cwd=f"{ST}/repo")
        if r.returncode == 0:
            r = sh(f"patch -p{strip} -f --no-backup-if-mismatch < {patch}", cwd=f"{ST}/repo")
            break
    if r.returncode != 0:
        print("PATCH FAILED", r.stdout[-500:], r.stderr[-500:]); return 3
    sh(f"rsync -a --delete --exclude target --exclude target-tsan --exclude evidence --exclude replays --exclude .git "
       f"/verif/check /verif/lib /verif/known_findings.json /verif/harness {ST}/verif/")
    for f in (f"{ST}/verif/harness/Cargo.toml", f"{ST}/verif/harness/miri_c14/Cargo.toml"):
        s = open(f).read().replace('path = "/repo"', f'path = "{ST}/repo"')
        open(f, "w").write(s)
    rc_all = 0
    for p in props:
        env = dict(os.environ, VERIF_SEED=seed)
        r = subprocess.run([f"{ST}/verif/check", p, "--tier", tier], text=True, capture_output=True, env=env)
        out = r.stdout
        viol = [l for l in out.splitlines() if l.startswith("VIOLATION")]
        sigs = [l.strip() for l in out.splitlines() if l.startswith("  C")]
        verdict = "detected" if viol else ("inconclusive" if r.returncode == 2 else "missed")
        print(f"{p} {verdict} rc={r.returncode} violations={len(viol)}")
        for s in sigs[:6]:
            print("     ", s[:220])
        if r.returncode == 2:
            for l in out.splitlines():
                if l.startswith("INCONCLUSIVE"):
                    print("     ", l[:300])
                    break
            if "harness-build-failed" in out:
                print(out[-1500:])
    return rc_all


if __name__ == "__main__":
    sys.exit(main())
