#!/usr/bin/env python3
"""False-alarm test: run checks against BENIGN changes (properties still hold) on patched mirrors.

  lib/sweep_benign.py <dir with <k>/patch.diff + meta.json{nearby_properties}> [--slots N] [--out DIR] [--all]

For every benign patch the checks of its `nearby_properties` (or all twenty with --all) are run through
lib/selftest.py. Expected verdict for every pair: `missed` with rc=0 (silent). `detected` = FALSE ALARM,
`inconclusive` = the check would exit 2 on property-preserving code. Nothing here touches /repo.
"""
import json, os, subprocess, sys, time, queue
from concurrent.futures import ThreadPoolExecutor

ROOT = os.path.dirname(os.path.dirname(os.path.abspath(__file__)))


def main():
    args = sys.argv[1:]
    slots, out, allp = 3, "/root/scratch/benign", False
    if "--slots" in args:
        i = args.index("--slots"); slots = int(args[i + 1]); del args[i:i + 2]
    if "--out" in args:
        i = args.index("--out"); out = args[i + 1]; del args[i:i + 2]
    if "--all" in args:
        allp = True; args.remove("--all")
    src = args[0]
    only = set(args[1:])
    os.makedirs(out, exist_ok=True)
    jobs = []
    for k in sorted(os.listdir(src)):
        d = os.path.join(src, k)
        if not os.path.isfile(os.path.join(d, "patch.diff")) or (only and k not in only):
            continue
        meta = json.load(open(os.path.join(d, "meta.json")))
        props = [f"C{i:02d}" for i in range(1, 21)] if allp else sorted(set(meta.get("nearby_properties", [])))
        jobs.append((k, d, props))
    free = queue.Queue()
    for s in range(slots):
        free.put(s)

    def one(job):
        k, d, props = job
        s = free.get()
        try:
            t0 = time.time()
            env = dict(os.environ, SELFTEST_DIR=f"/root/scratch/st{s}")
            p = subprocess.run([f"{ROOT}/lib/selftest.py", f"{d}/patch.diff"] + props, text=True, capture_output=True, env=env)
            open(f"{out}/{k}.log", "w").write(f"=== benign-{k}\n{p.stdout}{p.stderr[-2000:]}\n")
            lines = [l for l in p.stdout.splitlines() if l[:1] == "C"]
            bad = [l for l in lines if " missed rc=0" not in l]
            print(f"benign-{k}: {len(lines)} checks, {'ALL SILENT' if not bad and len(lines) == len(props) else 'ATTENTION: ' + '; '.join(bad) + ('' if len(lines) == len(props) else ' (some checks did not report)')}  [{time.time() - t0:.0f}s]", flush=True)
        finally:
            free.put(s)

    with ThreadPoolExecutor(slots) as ex:
        list(ex.map(one, jobs))


if __name__ == "__main__":
    main()
