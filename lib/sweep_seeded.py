#!/usr/bin/env python3
"""Run every seeded change (or the ones named) through lib/selftest.py, several mirrors side by side.

  lib/sweep_seeded.py [--slots N] [--slot-base K] [--tier quick|thorough] [--seed N] [--out DIR] [<seeded id> ...]

Each slot owns one persistent mirror /root/scratch/st<k> (SELFTEST_DIR), so cargo only rebuilds what a
patch changed. One log per seeded change is written to DIR/<id>.log in the format lib/seeded_results.py
reads (`=== <id> tier=<tier>` then the selftest lines); DIR/ALL.log is their concatenation.
Nothing here touches /repo.
"""
import os, subprocess, sys, time
from concurrent.futures import ThreadPoolExecutor
import queue

ROOT = os.path.dirname(os.path.dirname(os.path.abspath(__file__)))


def main():
    args = sys.argv[1:]
    slots, tier, seed, out = 3, "quick", "1", "/root/scratch/sweep"
    base = 0
    if "--slot-base" in args:
        i = args.index("--slot-base"); base = int(args[i + 1]); del args[i:i + 2]
    for flag in ("--slots", "--tier", "--seed", "--out"):
        if flag in args:
            i = args.index(flag)
            v = args[i + 1]
            del args[i:i + 2]
            if flag == "--slots": slots = int(v)
            elif flag == "--tier": tier = v
            elif flag == "--seed": seed = v
            else: out = v
    ids = args or sorted(d for d in os.listdir(f"{ROOT}/seeded") if os.path.isdir(f"{ROOT}/seeded/{d}"))
    os.makedirs(out, exist_ok=True)
    free = queue.Queue()
    for k in range(base, base + slots):
        free.put(k)

    def one(sid):
        k = free.get()
        try:
            prop = sid[:3]
            t0 = time.time()
            env = dict(os.environ, SELFTEST_DIR=f"/root/scratch/st{k}")
            p = subprocess.run([f"{ROOT}/lib/selftest.py", f"{ROOT}/seeded/{sid}/patch.diff", prop, "--tier", tier, "--seed", seed],
                               text=True, capture_output=True, env=env)
            body = f"=== {sid} tier={tier}\n{p.stdout}{p.stderr[-2000:]}\n"
            open(f"{out}/{sid}.log", "w").write(body)
            first = next((l for l in p.stdout.splitlines() if l.startswith(prop)), "??")
            print(f"{sid}: {first}  [{time.time() - t0:.0f}s slot {k}]", flush=True)
        finally:
            free.put(k)

    with ThreadPoolExecutor(slots) as ex:
        list(ex.map(one, ids))
    with open(f"{out}/ALL.log", "w") as f:
        for sid in sorted(os.listdir(out)):
            if sid.endswith(".log") and sid != "ALL.log":
                f.write(open(f"{out}/{sid}").read())


if __name__ == "__main__":
    main()
